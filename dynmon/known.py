"""Known-findings file (DESIGN.md 7).  Read-only at run time.

  finding: property=C02 key=<mechanism-key> <what fails> | repro=<short program>
  fixed:   property=C06 <commit> <what failed>              (suppresses nothing)

A finding is keyed by mechanism: an oracle failure is filed under a key only when the observed
value equals exactly what that key's deviant model predicts (the deviant models live next to
the oracles that use them); this module only says which (property, key) pairs are listed.
"""
import os
import re

from . import env

PATH = os.path.join(env.VERIF, "known_findings.txt")


def load(path=PATH):
    out = {}
    if not os.path.exists(path):
        return out
    with open(path) as f:
        for line in f:
            line = line.strip()
            if not line.startswith("finding:"):
                continue
            m = re.match(r"finding:\s+property=(\S+)\s+key=(\S+)\s+(.*)$", line)
            if m:
                out[(m.group(1), m.group(2))] = m.group(3).split(" | repro=")[0]
    return out
