"""Observable snapshot of a live graph through its public API (used for before/after and twin
comparisons: C06, C07, C16, C19)."""
import copy


def snapshot(G):
    """everything a client can see: nodes (with attributes, in order), interactions with their
    timelines, snapshot ids, per-snapshot counts, the event stream"""
    s = {}
    s["nodes"] = [(n, copy.deepcopy(d)) for n, d in G.nodes(data=True)]
    if G.is_directed():
        s["out"] = [(u, v, copy.deepcopy(d)) for u, v, d in G.out_interactions()]
        s["in"] = [(u, v, copy.deepcopy(d)) for u, v, d in G.in_interactions()]
    else:
        s["interactions"] = [(u, v, copy.deepcopy(d)) for u, v, d in G.interactions()]
        # the adjacency seen from every node (an undirected pair is stored twice)
        s["adj"] = [(n, [(x, y, copy.deepcopy(d)) for x, y, d in G.interactions([n])]) for n in G.nodes()]
    s["ids"] = list(G.temporal_snapshots_ids())
    s["counts"] = dict(G.interactions_per_snapshots())
    s["stream"] = list(G.stream_interactions())
    s["graph"] = copy.deepcopy(G.graph)
    return s


def diff(a, b):
    """names of the observables that differ"""
    return [k for k in a if a[k] != b.get(k)]
