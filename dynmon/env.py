"""Locate and import the library under test.

The library is always imported from $DYNMON_REPO (default /repo): the checks monitor the
current working tree, there is nothing to build.  If `dynetx` resolves elsewhere the run is
inconclusive (never "held").
"""
import os
import sys

REPO = os.path.realpath(os.environ.get("DYNMON_REPO", "/repo"))
VERIF = os.path.dirname(os.path.dirname(os.path.realpath(__file__)))


class Inconclusive(Exception):
    pass


def load():
    os.environ.setdefault("TQDM_DISABLE", "1")
    if REPO not in sys.path:
        sys.path.insert(0, REPO)
    import dynetx as dn
    where = os.path.realpath(dn.__file__)
    if not where.startswith(REPO + os.sep):
        raise Inconclusive("dynetx imported from %s, not from %s" % (where, REPO))
    # force the sub-packages the checks rely on
    import dynetx.algorithms  # noqa
    import dynetx.readwrite  # noqa
    return dn
