"""Which lines of the library did a workload actually execute?

A monitor only decides what the workload drives.  Every worker therefore records, with sys.monitoring
(LINE events, each location disabled after its first hit: the cost is one callback per line ever
reached), the set of library lines executed between the import of the library and the end of its
shard.  The runner merges the shards and writes, per library file, executable / reached line counts
and the unreached ranges into the evidence (`coverage.library_reach`).  Nothing is decided on this
information except one thing: a file a property is anchored in (properties.jsonl, anchors.files) in
which not a single function body line was reached makes the run inconclusive.
"""
import os
import sys

TOOL = 3      # a free sys.monitoring tool id (0-5; 2 = profiler, 5 = optimizer by convention)


class Reach:
    def __init__(self, pkg_dir):
        self.pkg = os.path.realpath(pkg_dir) + os.sep
        self.lines = {}           # relative file -> set of line numbers
        self.active = False

    def _line(self, code, line):
        fn = code.co_filename
        if fn.startswith(self.pkg):
            self.lines.setdefault(fn[len(self.pkg):], set()).add(line)
        return sys.monitoring.DISABLE

    def start(self):
        mon = getattr(sys, "monitoring", None)
        if mon is None:
            return False
        try:
            mon.use_tool_id(TOOL, "dynmon-reach")
        except ValueError:
            return False
        mon.register_callback(TOOL, mon.events.LINE, self._line)
        mon.set_events(TOOL, mon.events.LINE)
        self.active = True
        return True

    def stop(self):
        if self.active:
            mon = sys.monitoring
            mon.set_events(TOOL, 0)
            mon.register_callback(TOOL, mon.events.LINE, None)
            mon.free_tool_id(TOOL)
            self.active = False

    def result(self):
        return {f: sorted(s) for f, s in self.lines.items() if not f.startswith("test" + os.sep)}


def executable_lines(pkg_dir):
    """relative file -> (all executable lines, lines inside function bodies) from the compiled source of the
    tree being monitored"""
    pkg = os.path.realpath(pkg_dir)
    out = {}
    for root, dirs, files in os.walk(pkg):
        dirs[:] = [d for d in dirs if d not in ("test", "__pycache__")]
        for fn in files:
            if not fn.endswith(".py"):
                continue
            path = os.path.join(root, fn)
            try:
                code = compile(open(path, encoding="utf-8").read(), path, "exec")
            except SyntaxError:
                continue
            every, body = set(), set()

            def walk(co, inside, parent=frozenset()):
                own = set(ln for _, _, ln in co.co_lines() if ln is not None and ln > 0)
                every.update(own)
                if inside:
                    # the `def` / decorator lines belong to the enclosing scope (they run when it runs)
                    body.update(own - parent)
                for c in co.co_consts:
                    if hasattr(c, "co_lines"):
                        # class bodies (no CO_OPTIMIZED) run at import; function, lambda and comprehension
                        # bodies only when called
                        walk(c, inside or bool(c.co_flags & 0x1), own)
            walk(code, False)
            out[os.path.relpath(path, pkg)] = (every, body)
    return out


def ranges(lines):
    """[1,2,3,7,9,10] -> ['1-3', '7', '9-10']"""
    out, run = [], []
    for ln in sorted(lines):
        if run and ln == run[-1] + 1:
            run.append(ln)
        else:
            if run:
                out.append(run)
            run = [ln]
    if run:
        out.append(run)
    return ["%d" % r[0] if len(r) == 1 else "%d-%d" % (r[0], r[-1]) for r in out]


def summarise(pkg_dir, merged):
    """merged: relative file -> set of reached lines (union over shards)"""
    exe = executable_lines(pkg_dir)
    rep = {}
    for f, (every, body) in sorted(exe.items()):
        if not body:
            continue
        got = set(merged.get(f, ())) & every
        rep[f] = dict(executable=len(every), reached=len(got), function_body_lines=len(body),
                      function_body_reached=len(got & body), unreached=ranges(body - got))
    return rep
