"""Executable reference model of a dynamic graph (DESIGN.md 3.1).

The model is a dict  pair -> set of instants  plus the node table.  Everything the monitors
expect from the real objects is *derived* from it (static graph at t through networkx,
canonical timelines, snapshot ids, counts, event stream).  It is written from the property
statements, not from the library's source.
"""
import networkx as nx


def runs(instants):
    """maximal runs of a set of ints, as sorted list of [a, b]"""
    out = []
    for x in sorted(instants):
        if out and out[-1][1] == x - 1:
            out[-1][1] = x
        else:
            out.append([x, x])
    return out


class Model(object):
    def __init__(self, directed, removal=True):
        self.directed = bool(directed)
        self.removal = bool(removal)
        self.nodes = {}      # node -> attr dict (insertion order = first appearance)
        self.P = {}          # key -> set of instants (union of added spans)
        self.orient = {}     # key -> (u, v) as first given
        self.first = {}      # key -> instant of first accepted add
        self.accepted = set()  # instants t of accepted adds (accumulative ids)
        self.graph = {}
        # provenance needed only to key known finding D-E (DESIGN.md 6/7): per pair, whether the
        # latest run is a single instant that no accepted call closed explicitly (open1), and the
        # starts of two-instant runs formed by a bare point add onto such a run and not touched
        # since (unclosed).  Never used to decide what is correct.
        self.open1 = {}
        self.unclosed = {}

    # ------------------------------------------------------------------ keys
    def key(self, u, v):
        if self.directed:
            return (u, v)
        return frozenset((u, v))

    def ends(self, k):
        """(u, v) endpoints of a key, in first-given orientation"""
        return self.orient[k]

    def copy(self):
        m = Model(self.directed, self.removal)
        m.nodes = {n: dict(a) for n, a in self.nodes.items()}
        m.P = {k: set(s) for k, s in self.P.items()}
        m.orient = dict(self.orient)
        m.first = dict(self.first)
        m.accepted = set(self.accepted)
        m.graph = dict(self.graph)
        m.open1 = dict(self.open1)
        m.unclosed = {k: set(v) for k, v in self.unclosed.items()}
        return m

    # --------------------------------------------------------------- updates
    @staticmethod
    def span(t, e):
        return {t} if e is None else set(range(t, e))

    def verdict(self, u, v, t, e=None):
        """expected outcome of add_interaction on a removal-enabled graph (C01)"""
        if t is None:
            return "NetworkXError"
        k = self.key(u, v)
        if k in self.P and self.P[k]:
            if t < runs(self.P[k])[-1][0]:
                return "ValueError"
        return None

    def add_node(*args, **attrs):
        # (self, node) positionally only: attribute names such as 'n' or 'self' are legal keywords here
        self, node = args
        self.nodes.setdefault(node, {}).update(attrs)

    def clear(self, edges_only=False):
        """G.clear() / G.clear_edges(): all interactions (and, for clear, nodes and graph attributes) are gone"""
        self.P, self.orient, self.first = {}, {}, {}
        self.accepted = set()
        self.open1, self.unclosed = {}, {}
        if not edges_only:
            self.nodes = {}
            self.graph = {}

    def apply(self, u, v, t, e=None):
        """record an ACCEPTED add_interaction(u, v, t, e)"""
        for n in (u, v):
            if n not in self.nodes:
                self.nodes[n] = {}
        k = self.key(u, v)
        if k not in self.P:
            self.P[k] = set()
            self.orient[k] = (u, v)
            self.first[k] = t
        if self.removal:
            self._provenance(k, t, e)
            self.P[k] |= self.span(t, e)
        else:
            self.P[k].add(t)
        self.accepted.add(t)

    def _provenance(self, k, t, e):
        rr = runs(self.P[k])
        if not rr or t > rr[-1][1] + 1:
            # a new run starts
            self.open1[k] = e is None
            return
        x, y = rr[-1]
        end = t if e is None else e - 1
        if end > y:
            # the latest run is extended
            if e is None and x == y and self.open1.get(k):
                self.unclosed.setdefault(k, set()).add(x)
            else:
                self.unclosed.get(k, set()).discard(x)
            self.open1[k] = False
        elif e is not None and e == y + 1:
            # covered span whose vanishing time coincides with the end of the run: closes it
            self.unclosed.get(k, set()).discard(x)
            self.open1[k] = False

    # --------------------------------------------------------------- queries
    def ids(self):
        if self.removal:
            s = set()
            for p in self.P.values():
                s |= p
            return sorted(s)
        return sorted(self.accepted)

    def present(self, k, t):
        if k not in self.P:
            return False
        if self.removal:
            return t in self.P[k]
        return self.first[k] <= t <= max(self.accepted)

    def presence_set(self, k):
        """set of instants at which k is present (finite in both modes)"""
        if self.removal:
            return set(self.P[k])
        return set(range(self.first[k], max(self.accepted) + 1))

    def pairs_at(self, t):
        if t is None:
            return list(self.P)
        return [k for k in self.P if self.present(k, t)]

    def static(self, t=None):
        """networkx graph: all nodes, interactions present at t (union if t is None)"""
        S = nx.DiGraph() if self.directed else nx.Graph()
        S.add_nodes_from(self.nodes)
        for k in self.pairs_at(t):
            u, v = self.orient[k]
            S.add_edge(u, v)
        return S

    def timelines(self):
        return {k: runs(self.presence_set(k)) for k in self.P}

    def count_at(self, t):
        return len(self.pairs_at(t))

    def expected_plus(self):
        """set of (key, t) at which a '+' event must exist (C05 / C08)"""
        out = set()
        for k in self.P:
            if self.removal:
                for a, b in runs(self.P[k]):
                    out.add((k, a))
            else:
                out.add((k, self.first[k]))
        return out

    def window(self, pad=1):
        ids = self.ids()
        if not ids:
            return [0]
        return list(range(ids[0] - pad, ids[-1] + pad + 1))

    def state_key(self):
        """canonical, hashable description of the state (for distinctness counts)"""
        items = []
        for k, s in self.P.items():
            u, v = self.orient[k]
            a, b = repr(u), repr(v)
            if not self.directed and b < a:
                a, b = b, a
            items.append((a, b, tuple(sorted(self.presence_set(k)))))
        items.sort()
        return (self.directed, self.removal, tuple(items), len(self.nodes))

    def nontrivial(self):
        return any(self.P.values())
