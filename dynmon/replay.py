"""python -m dynmon.replay <replay.json>

Re-executes the witness of a violation against the repository working tree.  For the history
properties (C01-C05, C08) the recorded program is re-run in lock-step with the model under the
property's own battery; for the others the recorded case (inputs, configuration, query) is printed
and the property's quick check is re-run with the recorded seed (all generators are seeded, so
the same case is regenerated).  Exit 1 if a violation is observed again, 0 otherwise.
"""
import json
import os
import subprocess
import sys


def detuple(x):
    if isinstance(x, list):
        return [detuple(i) for i in x]
    if isinstance(x, dict) and set(x) == {"__set__"}:
        return frozenset(detuple(i) for i in x["__set__"])
    return x


def op_of(raw):
    raw = detuple(raw)
    k = raw[0]
    if k == "add":
        u, v = raw[1], raw[2]
        return (k, tuple(u) if isinstance(u, list) else u, tuple(v) if isinstance(v, list) else v, raw[3], raw[4])
    if k == "addfrom":
        return (k, [tuple(e) for e in raw[1]], raw[2], raw[3])
    if k == "node":
        return (k, raw[1], raw[2])
    return tuple(raw)


def main(path):
    with open(path) as f:
        rp = json.load(f)
    prop, fnd = rp["property"], rp["finding"]
    print("replay of %s violation, oracle %s" % (prop, fnd["oracle"]))
    print("  signature:", fnd["signature"])
    print("  detail   :", json.dumps(fnd["detail"])[:1500])
    case = fnd.get("case") or {}
    print("  case     :", json.dumps(case)[:3000])
    if prop in ("C01", "C02", "C03", "C04", "C05", "C08") and "program" in case and case.get("workload") != "DERIVED":
        import importlib
        from . import env
        from .core import Ctx
        from .props import _hist
        dn = env.load()
        mod = importlib.import_module("dynmon.props." + prop.lower())
        ctx = Ctx(prop, "quick", rp.get("seed", 0), 0, 1, 600)
        prog = [op_of(o) for o in case["program"]]
        battery = getattr(mod, "battery", None) or getattr(mod, "heavy")
        ctx.case = case
        _hist.run_program(ctx, dn, prog, case["directed"], battery, removal=case.get("removal", True), every=1)
        bad = [f for f in ctx.findings if not f["signature"].startswith("known:")]
        for f in bad[:5]:
            print("  REPRODUCED:", f["oracle"], json.dumps(f["detail"])[:400])
        print("replay: %d oracle evaluations, %d violations" % (sum(ctx.counters.values()), len(bad)))
        return 1 if bad else 0
    env_ = dict(os.environ, VERIF_SEED=str(rp.get("seed", 0)),
                DYNMON_HASHSEED=str(fnd.get("hashseed", "0")),
                DYNMON_EVIDENCE_DIR=os.environ.get("DYNMON_EVIDENCE_DIR", "/tmp/dynmon-replay-evidence"))
    print("re-running the %s check (tier %s, seed %s, hash seed %s) ..." % (prop, rp.get("tier"), rp.get("seed"),
                                                                           fnd.get("hashseed")))
    r = subprocess.run([sys.executable, "-m", "dynmon.check", prop, "--tier", rp.get("tier", "quick")], env=env_)
    return r.returncode


if __name__ == "__main__":
    sys.exit(main(sys.argv[1]))
