"""python -m dynmon.worker <PROP> <tier> <seed> <shard> <nshards> <outfile>

One shard of one property's workload, in its own process.  Writes a JSON result; exit status
0 = ran to completion (findings are in the file), 3 = inconclusive (import problem...).
"""
import importlib
import json
import os
import sys
import traceback


def main(argv):
    prop, tier, seed, shard, nshards, out = argv[:6]
    seed, shard, nshards = int(seed), int(shard), int(nshards)
    # address-space cap: a library that starts to allocate without bound (e.g. a span of 10**12 instants
    # indexed one by one) gets a MemoryError - attributed like any other exception - instead of taking the
    # machine, and the sibling shards, down with it
    try:
        import resource
        lim = int(float(os.environ.get("DYNMON_MEM_GB") or 6) * 2 ** 30)
        resource.setrlimit(resource.RLIMIT_AS, (lim, resource.getrlimit(resource.RLIMIT_AS)[1]))
    except Exception:
        pass
    from . import env
    from .core import Ctx, dump_result
    from . import reach
    rc = reach.Reach(os.path.join(env.REPO, "dynetx"))
    if os.environ.get("DYNMON_REACH", "1") != "0":
        rc.start()  # before the import: module and class bodies count as reached
    try:
        dn = env.load()
    except Exception as ex:  # import failure: inconclusive, never "held"
        with open(out, "w") as f:
            json.dump(dict(inconclusive="cannot import dynetx from %s: %r" % (env.REPO, ex),
                           trace=traceback.format_exc()), f)
        return 3
    mod = importlib.import_module("dynmon.props." + prop.lower())
    # DYNMON_BUDGET: CPU seconds for this shard (used by tools/automut.py for its short screening runs; the
    # registered checks never set it)
    budget = float(os.environ.get("DYNMON_BUDGET") or mod.BUDGET[tier])
    ctx = Ctx(prop, tier, seed, shard, nshards, budget)
    try:
        mod.run(ctx, dn)
    except Exception as ex:
        from .guard import raised_in_library
        if raised_in_library(ex):
            # the library raised inside a call the workload makes unconditionally (a call that returns on the
            # unchanged tree, or this shard would be inconclusive there): a violation, not a harness problem
            ctx.violation("raised:unguarded-call", dict(exception=type(ex).__name__, message=str(ex)[:300],
                                                        trace=traceback.format_exc()[-1500:]))
        else:
            # a crash of the harness itself is not a verdict on the library
            ctx.notes["harness_crash"] = traceback.format_exc()
    rc.stop()
    dump_result(ctx, out, reach=rc.result() if rc.lines else None)
    return 0


if __name__ == "__main__":
    sys.exit(main(sys.argv[1:]))
