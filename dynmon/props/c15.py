"""C15 - temporal_dag is acyclic, sound and window-respecting."""
import networkx as nx

from .. import pathsref
from ..guard import raised_in_library
from . import _paths

LEVEL = "exploration"
SHARDS = {"quick": 8, "thorough": 16}
BUDGET = {"quick": 20, "thorough": 200}
RULE = ("random removal-enabled temporal graphs of both classes (3-6 nodes, <= 7 ids with gaps, int and '_'-free "
        "string ids, self-loops) and (thorough) every graph of the 3-node/4-instant universe; every root u in the "
        "graph x v in nodes+{None} x windows (defaults, every valid [start,end] over and between the ids, invalid "
        "ones on each side: start<first, end>last, start>end, start>last); empty graph. Oracle on the returned "
        "(DAG, sources, targets, node_type, tid_type): nx.is_directed_acyclic_graph; every edge X@s->Y@t has "
        "(X,Y) present at t in the model (X->Y on digraphs), start<=t<=end, and s<t unless X@s is a source (then "
        "s==t); sources == {u@t : t a window id, u has a neighbour at t}; targets are occurrences of v (of reached "
        "nodes when v is None) and edge heads; sources and targets are DAG nodes; invalid windows raise ValueError; "
        "a graph without snapshots gives an empty DAG. distinct = distinct (graph, root, target, window); "
        "non-trivial = the DAG has at least one edge.")
MIN = {"quick": {"dag:acyclic": 20000, "edge:sound": 100000, "sources==expected": 20000, "invalid-window": 4000},
       "thorough": {"dag:acyclic": 400000, "edge:sound": 2000000, "sources==expected": 400000, "invalid-window": 80000}}
REQUIRED_CELLS = {t: ("class:DynGraph", "class:DynDiGraph", "ids:int", "ids:str", "window:inside", "window:default",
                      "invalid:start<first", "invalid:end>last", "invalid:start>end", "empty-graph", "second-life", "long-timeline", "root:isolated", "target:aliased", "target:isolated")
                  for t in ("quick", "thorough")}


def check(ctx, al, G, m, u, v, start, end, conv):
    q = dict(u=u, v=v, start=start, end=end)
    ctx.case["query"] = q
    try:
        DG, sources, targets, ntype, ttype = _paths.tdag(al, ctx.rng, G, u, v, start, end)
    except Exception as ex:
        if raised_in_library(ex):
            ctx.violation("raised", dict(q, exception=repr(ex)))
            return
        raise
    ids = m.ids()
    lo = ids[0] if start is None else start
    hi = ids[-1] if end is None else end
    win = [t for t in ids if lo <= t <= hi]
    ctx.expect("dag:acyclic", nx.is_directed_acyclic_graph(DG), True, q)
    srcset = set(sources)
    exp_sources = set("%s_%s" % (u, t) for t in win if pathsref.nbrs(m, u, t))
    ctx.expect("sources==expected", srcset, exp_sources, q)
    heads = set()
    for X, Y in DG.edges():
        xs, xt = pathsref.split_occurrence(X)
        ys, yt = pathsref.split_occurrence(Y)
        try:
            a, b, s, t = conv(xs), conv(ys), int(xt), int(yt)
        except ValueError:
            ctx.violation("edge:sound", dict(q, edge=(X, Y), problem="endpoint is not an occurrence 'node_time'"))
            continue
        heads.add(Y)
        probs = []
        if not m.present(m.key(a, b), t):
            probs.append("no interaction %r-%r at %r" % (a, b, t))
        if not (lo <= t <= hi):
            probs.append("hop time outside the window")
        if X in srcset:
            if not (s <= t):
                probs.append("edge from a source goes back in time")
        elif not (s < t):
            probs.append("s >= t for a non-source tail")
        if X in srcset and s == t and a != u:
            probs.append("same-instant edge from a non-root occurrence")
        ctx.expect("edge:sound", probs, [], dict(q, edge=(X, Y)))
    tg = set(targets)
    bad_t = [x for x in tg if v is not None and pathsref.split_occurrence(x)[0] != str(v)]
    ctx.expect("targets:occurrences-of-v", bad_t, [], q)
    ctx.expect("targets:reached", sorted(x for x in tg if x not in heads and x not in srcset), [], q)
    ctx.expect("sources+targets in DAG", sorted(x for x in (srcset | tg) if x not in DG), [], q)
    if v is None:
        ctx.expect("targets==all-reached(v=None)", tg | srcset >= heads, True, q)
    if DG.number_of_edges():
        ctx.nontrivial(m.state_key(), repr(q))


def invalid(ctx, al, G, m, u):
    ids = m.ids()
    rng = ctx.rng
    cases = [("start<first", ids[0] - 1, ids[-1]), ("end>last", ids[0], ids[-1] + 1),
             ("start>end", ids[-1], ids[0]) if len(ids) > 1 else ("start>end", ids[0] + 1, ids[0]),
             ("start>last", ids[-1] + 1, None), ("end>last", None, ids[-1] + 3), ("start<first", ids[0] - 2, None)]
    for name, s, e in cases:
        got = None
        try:
            al.temporal_dag(G, u, None, s, e)
        except Exception as ex:
            got = type(ex).__name__
        ctx.cell("invalid:" + name)
        ctx.expect("invalid-window", got, "ValueError", dict(kind=name, start=s, end=e, ids=ids))


def one_graph(ctx, dn, G, m, nodes, strings, exhaustive):
    # one graph with all its queries, under a wall-clock alarm (a library call that does not return within the
    # deadline is abandoned and counted as skipped, never judged)
    from ..core import case_deadline
    with case_deadline(ctx, 40):
        _one_graph_body(ctx, dn, G, m, nodes, strings, exhaustive)


def _one_graph_body(ctx, dn, G, m, nodes, strings, exhaustive):
    import dynetx.algorithms as al
    rng = ctx.rng
    ctx.cases += 1
    ctx.cell("class:" + ("DynDiGraph" if m.directed else "DynGraph"))
    ctx.cell("ids:" + ("str" if strings else "int"))
    conv = str if strings else int
    ids = m.ids()
    windows = [(None, None, "default")] + [(a, b, "inside" if b != ids[-1] else "to-last")
                                           for i, a in enumerate(ids) for b in ids[i:]]
    for i in range(len(ids) - 1):
        if ids[i] + 1 < ids[i + 1]:
            windows.append((ids[0], ids[i] + 1, "inside"))      # end in a gap
            windows.append((ids[i] + 1, ids[-1], "to-last"))    # start in a gap
    if not exhaustive:
        windows = [windows[0]] + rng.sample(windows[1:], min(4, len(windows) - 1))
    for u in nodes:
        if u not in m.nodes:
            continue
        for v in [None] + (list(nodes) if exhaustive else rng.sample(nodes, 1)):
            for (s, e, kind) in windows:
                ctx.cell("window:" + kind)
                check(ctx, al, G, m, u, v, s, e, conv)
    invalid(ctx, al, G, m, rng.choice([n for n in nodes if n in m.nodes]))
    # a root that is in the graph but never interacts: invalid windows are still invalid
    lonely = "lonely" if strings else 9999
    G.add_node(lonely)
    ctx.cell("root:isolated")
    invalid(ctx, al, G, m, lonely)
    # ... and an isolated node as explicit target leaves the sources what they are
    for u in [n for n in nodes if n in m.nodes][:3]:
        ctx.cell("target:isolated")
        check(ctx, al, G, m, u, lonely, None, None, conv)
    ids_ = m.ids()
    if ids_[0] < 0 <= ids_[-1]:
        for u in [n for n in nodes if n in m.nodes][:3]:
            ctx.cell("window:start=0")
            check(ctx, al, G, m, u, None, 0, ids_[-1], conv)
    if not strings:
        # an equal-but-differently-printed target (2.0 for 2, True for 1): whatever is returned as a target must
        # be a node of the DAG
        inside = [n for n in nodes if n in m.nodes]
        for u in inside[:2]:
            for v in inside[:3]:
                alias = True if v == 1 else float(v)
                try:
                    DG, sources, targets, _a, _b = al.temporal_dag(G, u, alias)
                except Exception as ex:
                    if raised_in_library(ex):
                        ctx.violation("raised", dict(u=u, v=alias, exception=repr(ex)))
                        continue
                    raise
                ctx.cell("target:aliased")
                ctx.expect("sources+targets in DAG", sorted(x for x in set(sources) | set(targets) if x not in DG), [],
                           dict(u=u, v=repr(alias)))


def run(ctx, dn):
    import dynetx.algorithms as al
    rng = ctx.rng
    # empty graph
    for cls in (dn.DynGraph, dn.DynDiGraph):
        r = al.temporal_dag(cls(), 0)
        ctx.cell("empty-graph")
        ctx.expect("empty-graph", (r[0].number_of_nodes(), r[0].number_of_edges(), list(r[1]), list(r[2])),
                   (0, 0, [], []), dict())
    if ctx.tier == "thorough":
        for directed in (False, True):
            for pres in _paths.all_small_graphs(directed, ctx.shard, ctx.nshards):
                if ctx.time_left() < ctx.budget_s * 0.45:
                    break
                G, m = _paths.graph_from_presence(dn, directed, pres)
                ctx.case = dict(workload="EX-GRAPHS", directed=directed, presence=pres)
                one_graph(ctx, dn, G, m, [0, 1, 2], False, True)
    k = 0
    while ctx.time_left() > 1:
        strings = rng.random() < 0.4
        G, m, nodes, pres = _paths.random_temporal_graph(rng, dn, strings=strings, p_loop=0.15)
        ctx.case = dict(workload="RND-GRAPHS", directed=m.directed, presence=pres)
        one_graph(ctx, dn, G, m, nodes, strings, False)
        if k % 9 == 4:
            G, m, nodes, pres = _paths.long_pair_graph(rng, dn, strings=strings)
            ctx.case = dict(workload="LONG-PAIR", directed=m.directed, presence=pres)
            ctx.cell("long-timeline")
            one_graph(ctx, dn, G, m, nodes, strings, False)
        if k % 5 == 1:
            m2 = _paths.refill_after_clear(rng, dn, G, m)
            ctx.case = dict(workload="SECOND-LIFE", directed=m.directed, first_life=pres,
                            presence={repr(kk): sorted(v) for kk, v in m2.P.items()})
            ctx.cell("second-life")
            one_graph(ctx, dn, G, m2, list(m2.nodes), strings, False)
        if k < 3:
            ctx.sample(ctx.case)
        k += 1
