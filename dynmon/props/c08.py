"""C08 - accumulative mode: interactions persist from first add to the last snapshot."""
from .. import audit, gen
from ..model import Model
from . import _hist

LEVEL = "exploration"
SHARDS = {"quick": 8, "thorough": 16}
BUDGET = {"quick": 18, "thorough": 180}
RULE = ("histories on DynGraph(edge_removal=False) / DynDiGraph(edge_removal=False): EX = every history of "
        "length <= L over two pairs x t<=3 x e in {None,t+1,t+2}; RND = random histories with vanishing times, "
        "repeats, rejected calls and unrelated pairs that move the global maximum. After every call: only "
        "ValueError/NetworkXError may be raised; present(p,t) <=> first(p) <= t <= max(snapshot ids) for every "
        "pair/order/instant in the window; all C02 queries follow that presence; the stream has exactly one '+' per "
        "pair at its first appearance and no '-'; snapshot ids == instants of accepted adds. distinct = distinct "
        "(canonical model state incl. global maximum, last op kind).")
REQUIRED_CELLS = {t: ("reset x2", "accumulative:>1024-readds", "empty-bunch") for t in ("quick", "thorough")}
MIN = {"quick": {"has_interaction(u,v,t)": 100000, "stream:plus==run-starts": 4000, "temporal_snapshots_ids": 4000,
                 "degree(t)": 2000},
       "thorough": {"has_interaction(u,v,t)": 2000000, "stream:plus==run-starts": 200000,
                    "temporal_snapshots_ids": 200000, "degree(t)": 100000}}


def light(ctx, dn, G, m):
    audit.audit_presence(ctx, dn, G, m)
    audit.audit_snapshots(ctx, dn, G, m)
    audit.audit_stream(ctx, dn, G, m)


def heavy(ctx, dn, G, m):
    light(ctx, dn, G, m)
    audit.audit_queries(ctx, dn, G, m)


def passive_battery(ctx, dn, G, m):
    if not m.removal:
        heavy(ctx, dn, G, m)


def second_lives(ctx, dn, n):
    """filled and inspected, emptied one to three times in a row, refilled unobserved with the same history shifted
    in time, inspected at the end"""
    from .. import driver as drv
    for _ in range(n):
        directed = ctx.rng.random() < 0.5
        prog, fam = gen.random_program(ctx.rng, lambda: Model(directed, True), directed=directed, bulk=False,
                                       tfamily="small", with_nodes=False, p_big=0, p_none=0)
        shift = ctx.rng.choice((2, 5, 11))
        resets = [(ctx.rng.choice(("clear", "clear_edges")),) for _i in range(ctx.rng.choice((1, 2, 2, 3)))]
        full = list(prog) + resets + [(o[0], o[1], o[2], o[3] + shift, None if o[4] is None else o[4] + shift)
                                      for o in prog]
        _hist._case(ctx, "RESET-ACC", directed, full, removal=False)
        ctx.cell("reset x%d" % len(resets))
        G = drv.new_graph(dn, directed, False)
        m = Model(directed, False)
        ok = True
        for i, op in enumerate(full):
            ok, _r = drv.step(ctx, dn, G, m, op)
            if not ok:
                break
            if i == len(prog) - 1 and m.P:
                light(ctx, dn, G, m)
        if ok and m.P:
            light(ctx, dn, G, m)


def many_readds(ctx, dn):
    """one pair re-added 1100 times at separated instants on an accumulative graph"""
    directed = ctx.rng.random() < 0.5
    G = dn.DynDiGraph(edge_removal=False) if directed else dn.DynGraph(edge_removal=False)
    m = Model(directed, False)
    G.add_interaction(7, 8, 1)
    m.apply(7, 8, 1, None)
    for i in range(1100):
        t = 3 + 2 * i
        G.add_interaction(0, 1, t)
        m.apply(0, 1, t, None)
    _hist._case(ctx, "MANY-READDS", directed, [("add", 0, 1, "3,5,...,2201", None)], removal=False)
    ctx.cell("accumulative:>1024-readds")
    audit.audit_presence(ctx, dn, G, m, ts=[0, 1, 2, 3, 4, 5, 100, 1001, 2201, 2202, 2203])
    audit.audit_stream(ctx, dn, G, m)


def run(ctx, dn):
    quick = ctx.tier == "quick"
    second_lives(ctx, dn, 8 if quick else 80)
    if ctx.shard % 4 == 2:
        many_readds(ctx, dn)
    if ctx.shard == 0:
        from .. import passive
        ctx.notes["passive_graphs"] = passive.run(ctx, dn, passive_battery)
    alpha = [("add", u, v, t, None if s is None else t + s)
             for (u, v) in ((0, 1), (1, 2), (1, 0)) for t in range(4) for s in (None, 1, 2)]
    for directed in (False, True):
        for prog in gen.enumerate_histories(alpha, 2 if quick else 3, ctx.shard, ctx.nshards):
            _hist._case(ctx, "EX-ACC", directed, prog, removal=False)
            _hist.run_program(ctx, dn, prog, directed, light, removal=False, every=0)
    ctx.sample(ctx.case)
    n = 0
    while ctx.time_left() > 1:
        directed = ctx.rng.random() < 0.5
        prog, fam = gen.random_program(ctx.rng, lambda: Model(directed, True), directed=directed, bulk=False,
                                       p_reject=0.15)
        # some adds go through the bulk entry point with the documented (u, v, d) form, d carrying a stale 't'
        prog = [("addfrom", [(op[1], op[2], {"t": [[0, 1]]} if ctx.rng.random() < 0.5 else {"w": 1})], op[3], op[4])
                if (op[0] == "add" and op[3] is not None and ctx.rng.random() < 0.15) else op for op in prog]
        # whatever vanishing time is supplied is ignored in this mode, also one that is not after t
        prog = [(op[0], op[1], op[2], op[3], op[3] - ctx.rng.choice((0, 1, 3)))
                if (op[0] == "add" and op[3] is not None and ctx.rng.random() < 0.12) else op for op in prog]
        # bunches that yield no pair, at instants where nothing else happens
        for _ in range(ctx.rng.choice((0, 0, 1, 2))):
            tt = ctx.rng.randint(-3, 30)
            x = next((e[0] for o in prog for e in gen.elements(o)), 0)
            empty = ctx.rng.choice((("addfrom", [], tt, None), ("path", [x], tt),
                                    ("dn.star", [x], tt, None), ("dn.path", [], tt, None)))
            prog.insert(ctx.rng.randint(0, len(prog)), empty)
            ctx.cell("empty-bunch")
        _hist._case(ctx, "RND-ACC", directed, prog, removal=False, families=fam)
        _hist.run_program(ctx, dn, prog, directed, heavy if n % 3 == 0 else light, removal=False, every=2)
        if n < 2:
            ctx.sample(ctx.case)
        n += 1
