"""C09 - snapshot edge-list files round-trip the presence relation."""
import shutil
from collections import Counter

from .. import audit, driver, gen, iohelp
from ..guard import guarded, raised_in_library
from ..model import Model

LEVEL = "exploration"
SHARDS = {"quick": 8, "thorough": 16}
BUDGET = {"quick": 22, "thorough": 240}
RULE = ("random removal-enabled graphs of both classes (reciprocal pairs, self-loops, multi-run timelines) x id type "
        "(int, numeric-looking str, str, non-ASCII str; int and str reads alternate in one process) x delimiter (default, ',', ';', tab, '|') x encoding (utf-8, latin-1, cp1252) x "
        "target (path .txt/.gz/.bz2, open binary file, BytesIO). Oracle: the written bytes decode to exactly one "
        "row 'u<d>v<d>t' per interaction and present instant (multiset == model, orientation kept on digraphs, "
        "newline-terminated); caller-owned file objects are left open, path targets are closed and complete; "
        "read_snapshots(matching args) yields a graph whose presence, timelines and snapshot ids equal the model "
        "(audit C01/C03/C04 on the graph read); hand-written four-column rows 'u v t e' are read as "
        "the span t..e-1. distinct = distinct (model state, configuration).")
MIN = {"quick": {"rows==model": 1500, "read:has_interaction(u,v,t)": 30000, "fourcol:has_interaction(u,v,t)": 3000},
       "thorough": {"rows==model": 30000, "read:has_interaction(u,v,t)": 600000, "fourcol:has_interaction(u,v,t)": 60000}}
REQUIRED_CELLS = {t: tuple("target:" + x for x in iohelp.TARGETS) + tuple("delim:%r" % d for d in iohelp.DELIMS) +
                  tuple("enc:" + e for e in iohelp.ENCODINGS) + ("ids:int", "ids:str", "ids:nonascii", "ids:numstr",
                                                               "class:DynGraph", "class:DynDiGraph",
                                                               "src:reciprocal", "src:self-loop",
                                                               "src:big(>1024 rows)", "src:block-aligned-rows", "ids:magic", "src:big-non-ascii")
                  for t in ("quick", "thorough")}


def big_program(rng, directed, long_spans=False):
    """16 nodes, every pair present on long spans: more than 1024 snapshot rows / several hundred events
    (long_spans: ~7000 rows, more than 64 KiB)"""
    n = 16
    prog = []
    for i in range(n):
        for j in range(i + 1, n):
            t = rng.randint(0, 3)
            for _ in range(2):
                ln = rng.randint(4, 9) if not long_spans else rng.randint(25, 35)
                prog.append(("add", i, j, t, t + ln))
                t += ln + rng.randint(1, 2)
    rng.shuffle(prog)
    prog.sort(key=lambda op: op[3])
    return prog


def aligned_program(rng, rows):
    """rows of exactly 16 bytes ('100 11 10000000\\n'): every power-of-two block boundary >= 16 falls exactly
    between two rows"""
    t0 = 10000000
    half = rows // 2
    return [("add", 100, 11, t0, t0 + half), ("add", 101, 12, t0 + 3, t0 + 3 + (rows - half))]


def aligned_log_program(rows):
    """an event log whose rows are exactly 16 bytes ('100 101 + 10000\\n'): rows//2 distinct pairs over 3-digit
    ids, each present for two instants and closed"""
    prog = []
    n = rows // 2
    i = 0
    for a in range(100, 400):
        for b in range(a + 1, 400):
            if i >= n:
                return prog
            prog.append(("add", a, b, 10000 + i, 10000 + i + 2))
            i += 1
    return prog


def build(ctx, dn, directed, idkind, big=False):
    rng = ctx.rng
    if big == "nonascii-big":
        # > 64 KiB of rows with two-byte characters in the ids, at a random byte alignment
        prog = big_program(rng, directed, long_spans=True)
        pad = "x" * rng.randint(0, 7)
        idkind = "nonascii-big"
    elif big == "aligned-log":
        prog = aligned_log_program(4200 if ctx.tier == "quick" else 70000)
    elif big == "aligned":
        prog = aligned_program(rng, 4200 if ctx.tier == "quick" else 70000)
    elif big:
        prog = big_program(rng, directed)
    else:
        prog, fam = gen.random_program(rng, lambda: Model(directed, True), directed=directed, family="int",
                                       tfamily=rng.choice(("small", "small", "neg", "big", "numpy")),
                                       with_nodes=False, max_nodes=5)
    # rename the int ids of the generated program into the requested id family
    names = {}

    def nm(x):
        if x not in names:
            names[x] = None
        return x
    for op in prog:
        for (u, v, t, e) in gen.elements(op):
            nm(u), nm(v)
        if op[0] in ("path", "star", "cycle", "dn.path", "dn.star", "dn.cycle"):
            for x in op[1]:
                nm(x)          # bunches that yield no pair still name nodes
    if idkind == "nonascii-big":
        ids = [pad + "é%dß" % i for i in range(len(names))]
    else:
        ids = iohelp.ids_for(rng, idkind, max(len(names), 1))
    if len(ids) < len(names):
        return None
    ren = dict(zip(names, ids))
    if big in ("aligned", "aligned-log"):
        ren = {x: x for x in names}          # the ids are part of the fixed row width

    def rn(op):
        k = op[0]
        if k == "add":
            return (k, ren[op[1]], ren[op[2]], op[3], op[4])
        if k == "addfrom":
            return (k, [(ren[x[0]], ren[x[1]]) + tuple(x[2:]) for x in op[1]], op[2], op[3])
        return (k, [ren[x] for x in op[1]]) + tuple(op[2:])
    prog = [rn(op) for op in prog]
    if big:
        # large fixed programs of plain accepted adds: no per-call model copies
        G = driver.new_graph(dn, directed, True)
        m = Model(directed, True)
        for op in prog:
            G.add_interaction(op[1], op[2], op[3], op[4])
            m.apply(op[1], op[2], op[3], op[4])
        return G, m, prog
    G, m, ok = driver.build_accepted(dn, prog, directed)
    if not ok or not m.nontrivial():
        return None
    return G, m, prog


def one(ctx, dn, directed, idkind, delim, enc, target, big=False):
    r = build(ctx, dn, directed, idkind, big)
    if not r:
        ctx.skip("graph not built")
        return
    G, m, prog = r
    ctx.cases += 1
    cfg = dict(directed=directed, ids=idkind, delimiter=delim, encoding=enc, target=target)
    ctx.case = dict(workload="GRID", program=prog, **cfg)
    S = m.static(None)
    if any(S.has_edge(n, n) for n in S):
        ctx.cell("src:self-loop")
    if directed and any(S.has_edge(v, u) for u, v in S.edges() if u != v):
        ctx.cell("src:reciprocal")
    d = iohelp.tmpdir()
    try:
        tgt = iohelp.Target(target, d)
        kw = dict(encoding=enc)
        if delim is not None:
            kw["delimiter"] = delim
        kw = iohelp.drop_defaults(ctx.rng, kw, iohelp.WRITE_DEFAULTS, ctx)
        try:
            # the target is passed positionally or by keyword (both are resolved by the same decorator)
            if ctx.rng.random() < 0.3:
                ctx.cell("path-by-keyword")
                tgt.write(lambda p: dn.write_snapshots(G, path=p, **kw))
            else:
                tgt.write(lambda p: dn.write_snapshots(G, p, **kw))
        except Exception as ex:
            if raised_in_library(ex):
                ctx.violation("write:raised", dict(cfg, exception=repr(ex)))
                return
            raise
        for c in ("target:" + target, "delim:%r" % (delim,), "enc:" + enc, "ids:" + idkind,
                  "class:" + ("DynDiGraph" if directed else "DynGraph")):
            ctx.cell(c)
        if target in ("fileobj", "bytesio"):
            ctx.expect("fileobj-left-open", tgt.closed_by_library, False, cfg)
        elif tgt.opened:
            # files the library opened for a path target must be closed when the call returns
            ctx.expect("path-target-closed", tgt.left_open, [], cfg)
        try:
            data = tgt.data()
            rows, trailing = iohelp.rows_of(data, enc, delim)
        except (OSError, EOFError, UnicodeError, ValueError) as ex:
            # e.g. a '.gz' target that does not hold gzip data, or bytes that are not in the requested encoding:
            # what was written is not the file that was asked for
            ctx.violation("file:unreadable", dict(cfg, exception=repr(ex)))
            return
        ctx.expect("rows:newline-terminated", trailing, "", cfg)
        exp = Counter()
        for k, s in m.P.items():
            u, v = m.orient[k]
            for t in s:
                exp[(str(u), str(v), str(t))] += 1
        if directed:
            obs = Counter(rows)
        else:
            # an undirected pair may be written in either endpoint order
            obs = Counter((min(r[0], r[1]), max(r[0], r[1])) + tuple(r[2:]) if len(r) >= 2 else r for r in rows)
            exp = Counter({(min(k[0], k[1]), max(k[0], k[1]), k[2]): c for k, c in exp.items()})
        ctx.expect("rows==model", obs, exp, cfg)
        # read back
        if big:
            ctx.cell("src:big(>1024 rows)" if len(rows) > 1024 else "src:big(too small)")
        conv = int if idkind == "int" else str
        rk = dict(directed=directed, nodetype=conv, timestamptype=int, encoding=enc)
        if delim is not None:
            rk["delimiter"] = delim
        if conv is str:
            rk["nodetype"] = None if ctx.rng.random() < 0.5 else str      # the reader yields strings by itself
        rk = iohelp.drop_defaults(ctx.rng, rk, iohelp.READ_DEFAULTS, ctx)
        arg = tgt.read_arg()
        try:
            H = dn.read_snapshots(path=arg, **rk) if ctx.rng.random() < 0.3 else dn.read_snapshots(arg, **rk)
        except Exception as ex:
            if raised_in_library(ex):
                ctx.violation("read:raised", dict(cfg, exception=repr(ex)))
                return
            raise
        finally:
            if hasattr(arg, "close"):
                arg.close()
        ctx.expect("read:class", type(H) is (dn.DynDiGraph if directed else dn.DynGraph), True, cfg)
        h = iohelp.retype(m)
        guarded(ctx, "read:audit", audit.audit_all, ctx, dn, H, h, "read:", ("C01", "C03", "C04"))
        ctx.nontrivial(m.state_key(), repr(sorted(cfg.items(), key=str)))
    finally:
        shutil.rmtree(d, ignore_errors=True)


def four_column(ctx, dn):
    """hand-written rows 'u v t e' => span t..e-1 (and mixed with 3-column rows)"""
    rng = ctx.rng
    directed = rng.random() < 0.5
    delim = rng.choice(iohelp.DELIMS)
    m = Model(directed, True)
    lines = []
    nodes = [1, 2, 3, 4]
    for _ in range(rng.randint(1, 8)):
        u, v = rng.choice(nodes), rng.choice(nodes)
        k = m.key(u, v)
        base = max(m.P[k]) + 1 if k in m.P and m.P[k] else rng.randint(-3, 5)
        t = base + rng.randint(0, 2)
        if rng.random() < 0.7:
            e = t + rng.randint(1, 4)
            fields = [u, v, t, e]
        else:
            e = None
            fields = [u, v, t]
        if m.verdict(u, v, t, e):
            continue
        m.apply(u, v, t, e)
        lines.append((delim or " ").join(str(x) for x in fields))
    if not lines:
        return
    ctx.cases += 1
    ctx.case = dict(workload="FOURCOL", directed=directed, delimiter=delim, lines=lines)
    kw = dict(directed=directed, nodetype=int, timestamptype=int)
    if delim is not None:
        kw["delimiter"] = delim
    kw = iohelp.drop_defaults(rng, kw, iohelp.READ_DEFAULTS, ctx)
    try:
        if rng.random() < 0.5:
            H = dn.parse_snapshots(lines, **kw)
        else:
            import io
            H = dn.read_snapshots(io.BytesIO(("\n".join(lines) + "\n").encode("utf-8")), **kw)
    except Exception as ex:
        if raised_in_library(ex):
            ctx.violation("fourcol:raised", dict(lines=lines, exception=repr(ex)))
            return
        raise
    guarded(ctx, "fourcol:audit", audit.audit_all, ctx, dn, H, iohelp.retype(m), "fourcol:", ("C01", "C03", "C04"))
    ctx.nontrivial("fourcol", tuple(lines), directed)
    if len(ctx.samples) < 5 and rng.random() < 0.02:
        ctx.sample(ctx.case)


def run(ctx, dn):
    rng = ctx.rng
    # the configuration grid is walked systematically (graphs are random), shard by shard
    grid = [(d, i, dl, e, t) for d in (False, True) for i in ("int", "numstr", "str", "nonascii", "magic")
            for dl in iohelp.DELIMS for e in iohelp.ENCODINGS for t in iohelp.TARGETS]
    rng.shuffle(grid)
    n = 0
    # one large graph per shard first (block-wise writers, long files)
    one(ctx, dn, rng.random() < 0.5, "int", rng.choice(iohelp.DELIMS), "utf-8", rng.choice(iohelp.TARGETS), big=True)
    one(ctx, dn, rng.random() < 0.5, "str", rng.choice((None, ",", "|")), "utf-8", rng.choice(iohelp.TARGETS),
        big="nonascii-big")
    ctx.cell("src:big-non-ascii")
    if ctx.shard % 4 == 0:
        # a file whose rows are 16 bytes each (64 KiB, and 1 MiB in the thorough tier, fall between two rows)
        one(ctx, dn, ctx.shard % 8 == 0, "int", None, "utf-8", rng.choice(("path.txt", "path.gz", "fileobj")),
            big="aligned")
        ctx.cell("src:block-aligned-rows")
    while ctx.time_left() > 1:
        cfg = grid[n % len(grid)]
        one(ctx, dn, *cfg)
        if n < 2:
            ctx.sample(ctx.case)
        for _ in range(2):
            four_column(ctx, dn)
        n += 1
    ctx.notes["grid_size"] = len(grid)
    ctx.notes["configs_visited"] = n
