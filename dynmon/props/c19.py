"""C19 - untimed networkx mutators are blocked; frozen graphs are immutable (program enumeration)."""
import networkx as nx

from .. import audit, driver, gen, observe
from ..guard import guarded, raised_in_library
from ..model import Model, runs

LEVEL = "fault_enumeration"
SHARDS = {"quick": 8, "thorough": 16}
BUDGET = {"quick": 22, "thorough": 240}
EXHAUSTIVE = {"quick": False, "thorough": False}
RULE = ("program enumeration: every public name of dir(networkx.Graph) and dir(networkx.DiGraph) of the INSTALLED "
        "networkx (plus the blocked untimed edge views of the statement and dn.set/get_edge_attributes) is invoked "
        "on a twin of every reached state (random histories, both classes) with a fixed family of synthesised "
        "arguments (existing/fresh nodes, nbunches, ebunches, weighted ebunches, attribute dicts, update(edges=, "
        "nodes=)); properties are read. Oracle: the mutators/edge views listed in the statement raise "
        "NetworkXNotImplemented and leave the full observable snapshot unchanged; after ANY other call (returned or "
        "raised) every adjacency entry still carries a canonical timeline, surviving pairs keep exactly their "
        "pre-call presence, no pair appears, and snapshot ids, per-snapshot counts and the stream agree with the "
        "surviving presence (C01/C04/C05 audit). Frozen graphs: is_frozen is true and every structural mutator "
        "(networkx ones, add_interaction and bulk helpers in method and dn. form, with legal arguments) raises and "
        "leaves the snapshot unchanged. distinct = distinct (model state, callable, argument shape); non-trivial = "
        "the state has at least one interaction.")
MIN = {"quick": {"blocked:raises-NotImplemented": 2500, "blocked:no-trace": 2500, "other:consistent": 10000,
                 "frozen:raises": 1200, "frozen:unchanged": 1200},
       "thorough": {"blocked:raises-NotImplemented": 100000, "blocked:no-trace": 100000, "other:consistent": 400000,
                    "frozen:raises": 60000, "frozen:unchanged": 60000}}
REQUIRED_CELLS = {t: ("class:DynGraph", "class:DynDiGraph", "call:clear", "call:clear_edges", "call:copy",
                      "call:update", "call:add_weighted_edges_from", "call:add_edge", "call:remove_node",
                      "call:in_edges", "frozen:add_interaction", "frozen:clear_edges", "frozen:add_node", "frozen-chain:conversion",
                      "frozen-chain:json", "second-life:clear", "second-life:clear_edges", "state:single-self-loop",
                      "state:all-edges-backward")
                  for t in ("quick", "thorough")}

BLOCKED = ("add_edge", "add_edges_from", "add_weighted_edges_from", "remove_edge", "remove_edges_from",
           "remove_node", "remove_nodes_from", "edges_iter")
BLOCKED_DI = ("in_edges", "out_edges", "in_edges_iter", "out_edges_iter")


def names_for(directed):
    base = set(n for n in dir(nx.DiGraph if directed else nx.Graph) if not n.startswith("_"))
    base |= set(BLOCKED)
    if directed:
        base |= set(BLOCKED_DI)
    return sorted(base)


def candidates(m, rng):
    nodes = list(m.nodes)
    n0 = nodes[0]
    n1 = nodes[1] if len(nodes) > 1 else nodes[0]
    k = next(iter(m.P))
    a, b = m.orient[k]
    fr, fr2 = "zz1", "zz2"
    c = [
        ((), {}), ((n0,), {}), ((fr,), {}), (([n0, n1],), {}), (([n0, fr],), {}),
        (([(a, b)],), {}), (([(a, b), (fr, fr2)],), {}), (([(a, fr, 2.5)],), {}), (([(a, b, {"w": 1})],), {}),
        ((a, b), {}), ((a, fr), {}), ((fr, fr2), {}), ((a, b, {"w": 1}), {}), ((n0,), {"color": "red"}),
        ((), {"edges": [(a, b)]}), ((), {"nodes": [fr]}), ((), {"edges": [(a, fr)], "nodes": [fr2]}),
        ((None, [a, b]), {}),
        # edge data shaped like a timeline (what G.interactions() / G.edges(data=True) hand out)
        (([(a, b, {"t": [[2, 5]]})],), {}), (([(fr, fr2, {"t": [[2, 5]]})],), {}),
        ((), {"edges": [(fr, fr2, {"t": [[0, 0]]})]}), (([(fr, fr2, [[2, 5]])],), {"weight": "t"}),
        ((a, fr), {"t": [[1, 3]]}),
        # bunches that yield nothing
        (([],), {}), ((iter(()),), {}), ((), {"edges": []}), ((), {"edges": [], "nodes": []}),
    ]
    return c


def shape(args, kw):
    def s(x):
        if isinstance(x, (list, tuple)):
            return "[" + ",".join(s(i) for i in x) + "]"
        if isinstance(x, dict):
            return "{}"
        return "x"
    return ",".join(s(a) for a in args) + ";" + ",".join(sorted(kw))


def rebuild(dn, prog, directed):
    G = driver.new_graph(dn, directed, True)
    for op in prog:
        try:
            driver.call(dn, G, op)
        except Exception:
            pass
    return G


def surviving(ctx, G, m, detail):
    """model of what G now holds, read from its adjacency; every entry must carry a canonical timeline"""
    h = Model(m.directed, True)
    ok = True
    for u in G.adj:
        h.nodes[u] = {}
        for v, d in G.adj[u].items():
            tl = d.get("t") if isinstance(d, dict) else None
            prob = "adjacency entry without a timeline" if tl is None else audit.canonical_problem(tl)
            if prob:
                ctx.finding("other:consistent", "unclassified:other:consistent",
                            dict(detail, pair=(u, v), problem=prob, entry=d))
                ok = False
                continue
            k = h.key(u, v)
            s = set()
            for x, y in tl:
                s |= set(range(x, y + 1))
            h.P[k] = s
            h.orient.setdefault(k, (u, v))
            h.first[k] = min(s)
    for n in G.nodes():
        h.nodes.setdefault(n, {})
    if m.directed:
        # the predecessor side must mirror the successor side, entry by entry
        outs = set((u, v) for u in G.adj for v in G.adj[u])
        ins = set((u, v) for v in G.pred for u in G.pred[v])
        if outs != ins:
            ctx.finding("other:consistent", "unclassified:other:consistent",
                        dict(detail, problem="successor and predecessor tables disagree",
                             only_out=sorted(map(repr, outs - ins))[:4], only_in=sorted(map(repr, ins - outs))[:4]))
            ok = False
    for k, s in h.P.items():
        if k not in m.P:
            ctx.finding("other:consistent", "unclassified:other:consistent",
                        dict(detail, pair=k, problem="pair appeared without a timed call"))
            ok = False
        elif s != m.P[k]:
            ctx.finding("other:consistent", "unclassified:other:consistent",
                        dict(detail, pair=k, problem="presence of a surviving pair changed",
                             before=sorted(m.P[k]), after=sorted(s)))
            ok = False
    h.unclosed = {k: set(v) for k, v in m.unclosed.items() if k in h.P}
    return h, ok


def post_audit(ctx, dn, G, m, detail):
    ctx.count("other:consistent")
    h, ok = surviving(ctx, G, m, detail)
    if ok:
        guarded(ctx, "other:audit", audit.audit_all, ctx, dn, G, h, "other:", ("C01", "C04", "C05"))


RETURNED = []        # graphs handed back by the last call (copies, conversions, views)


def invoke(G, name, args, kw):
    attr = getattr(G, name)
    del RETURNED[:]
    if not callable(attr):
        return "property", None
    try:
        r = attr(*args, **kw)
        # exhaust lazily evaluated results so that their code really runs
        if hasattr(r, "__next__"):
            for _ in zip(range(50), r):
                pass
        # independent graphs only: networkx views (reverse(copy=False), to_directed(as_view=True), subgraph...) share
        # the receiver's tables by design and are documented read-only (DESIGN.md 4.9)
        if hasattr(r, "add_interaction") and r is not G and getattr(r, "_graph", None) is None:
            RETURNED.append(r)
        return "returned", None
    except Exception as ex:
        return type(ex).__name__, ex


def is_blocked_call(name, args, kw, directed):
    if name in BLOCKED or (directed and name in BLOCKED_DI):
        return True
    if name == "update":
        return kw.get("edges") is not None or (len(args) >= 1 and args[0] is not None)
    return False


def enumerate_api(ctx, dn, prog, m, directed, cands, names):
    for name in names:
        for args, kw in cands:
            T = rebuild(dn, prog, directed)
            before = observe.snapshot(T)
            detail = dict(call=name, args=args, kwargs=kw)
            ctx.case["call"] = detail
            try:
                how, ex = invoke(T, name, args, kw)
            except AttributeError:
                ctx.skip("no attribute " + name)
                break
            ctx.cell("call:" + name)
            ctx.notes.setdefault("outcomes", {})
            ctx.notes["outcomes"][how] = ctx.notes["outcomes"].get(how, 0) + 1
            if how == "property":
                post_audit(ctx, dn, T, m, detail)
                break
            if name in ("clear", "clear_edges") and how == "returned" and not args and not kw:
                post_audit(ctx, dn, T, m, detail)          # the emptied graph itself, looked at right away
                T = rebuild(dn, prog, directed)
                getattr(T, name)()
                # second life: the emptied graph is refilled (unobserved) with the same history shifted in time
                ctx.cell("second-life:" + name)
                mm = Model(directed, True)
                if name == "clear_edges":
                    for n_ in m.nodes:
                        mm.nodes[n_] = {}
                okk = True
                for op in prog:
                    if op[0] in ("node", "nodes_from"):
                        continue
                    sh = tuple(op)
                    if op[0] == "add":
                        sh = (op[0], op[1], op[2], op[3] + 5, None if op[4] is None else op[4] + 5)
                    elif op[0] == "addfrom":
                        sh = (op[0], op[1], op[2] + 5, None if op[3] is None else op[3] + 5)
                    elif len(op) > 3:
                        sh = (op[0], op[1], op[2] + 5, None if op[3] is None else op[3] + 5)
                    else:
                        sh = (op[0], op[1], op[2] + 5)
                    got, ex = driver.outcome(dn, T, sh)
                    if got is not None or gen.advance(mm, sh) is not None:
                        okk = False
                        break
                if okk:
                    guarded(ctx, "other:second-life", audit.audit_all, ctx, dn, T, mm, "second-life:",
                            ("C01", "C03", "C04", "C05"))
                continue
            if is_blocked_call(name, args, kw, directed) and how != "TypeError":
                # (a TypeError here means the synthesised arguments do not fit the signature)
                ctx.expect("blocked:raises-NotImplemented", how, "NetworkXNotImplemented", detail)
                # the statement protects interactions, timelines, snapshot ids and stream events
                # (update(edges, nodes) may add its nodes before the edges are refused)
                d = [x for x in observe.diff(before, observe.snapshot(T)) if x not in ("nodes", "adj", "graph")]
                ctx.expect("blocked:no-trace", d, [], dict(detail, differing=d))
            else:
                post_audit(ctx, dn, T, m, detail)
                for R in list(RETURNED):
                    # a graph handed back by the call (copy, conversion...) is updated: the receiver must not move
                    try:
                        from .c16 import grow
                        grow(ctx, R)
                    except Exception:
                        continue        # views and frozen results refuse updates: nothing to check
                    ctx.cell("returned-graph-updated:" + name)
                    post_audit(ctx, dn, T, m, dict(detail, after="the returned graph received add_interaction calls"))
            ctx.nontrivial(m.state_key(), name, shape(args, kw))
    # the module-level blocked helpers
    for fn, a in ((dn.set_edge_attributes, (1, "w")), (dn.get_edge_attributes, (rebuild(dn, prog, directed), "w"))):
        got = None
        try:
            fn(*a)
        except Exception as ex:
            got = type(ex).__name__
        ctx.expect("blocked:raises-NotImplemented", got, "NetworkXNotImplemented", dict(call=fn.__name__))


def frozen_calls(m, directed):
    nodes = list(m.nodes)
    k = next(iter(m.P))
    a, b = m.orient[k]
    t = max(m.ids()) + 1
    fr = "zz1"
    calls = [
        ("add_node", lambda G, dn: G.add_node(fr)),
        ("add_nodes_from", lambda G, dn: G.add_nodes_from([fr])),
        ("remove_node", lambda G, dn: G.remove_node(a)),
        ("remove_nodes_from", lambda G, dn: G.remove_nodes_from([a])),
        ("add_edge", lambda G, dn: G.add_edge(a, fr)),
        ("add_edges_from", lambda G, dn: G.add_edges_from([(a, fr)])),
        ("add_weighted_edges_from", lambda G, dn: G.add_weighted_edges_from([(a, fr, 1.0)])),
        ("remove_edge", lambda G, dn: G.remove_edge(a, b)),
        ("remove_edges_from", lambda G, dn: G.remove_edges_from([(a, b)])),
        ("clear", lambda G, dn: G.clear()),
        ("clear_edges", lambda G, dn: G.clear_edges()),
        ("update", lambda G, dn: G.update(edges=[(a, fr)])),
        ("update", lambda G, dn: G.update(nodes=[fr])),
        ("add_interaction", lambda G, dn: G.add_interaction(a, b, t)),
        ("add_interaction", lambda G, dn: G.add_interaction(a, fr, t, t + 2)),
        ("add_interactions_from", lambda G, dn: G.add_interactions_from([(a, b), (b, fr)], t)),
        ("add_path", lambda G, dn: G.add_path([a, b, fr], t)),
        ("dn.add_path", lambda G, dn: dn.add_path(G, [a, b, fr], t)),
        ("dn.add_star", lambda G, dn: dn.add_star(G, [a, b, fr], t)),
        ("dn.add_cycle", lambda G, dn: dn.add_cycle(G, [a, fr], t)),
    ]
    if not directed:
        calls += [("add_star", lambda G, dn: G.add_star([a, b, fr], t)),
                  ("add_cycle", lambda G, dn: G.add_cycle([a, b, fr], t))]
    return calls


def frozen_chain(ctx, dn, prog, m, directed):
    """freeze(G) -> derive X from G (conversion / JSON round trip copy the graph attributes) -> freeze(X):
    X must be immutable too"""
    import json
    from dynetx.readwrite import json_graph
    F = rebuild(dn, prog, directed)
    dn.freeze(F)
    derived = [("conversion", (lambda: F.to_undirected()) if directed else (lambda: F.to_directed())),
               ("json", lambda: json_graph.node_link_graph(json.loads(json.dumps(json_graph.node_link_data(F)))))]
    for how, make in derived:
        for name, f in (("add_node", lambda G: G.add_node("zz9")), ("clear_edges", lambda G: G.clear_edges()),
                        ("clear", lambda G: G.clear()), ("add_nodes_from", lambda G: G.add_nodes_from(["zz9"]))):
            try:
                X = make()
            except Exception as ex:
                if raised_in_library(ex):
                    ctx.skip("frozen-chain: derivation raised %s" % type(ex).__name__)
                    break
                raise
            dn.freeze(X)
            ctx.expect("frozen:is_frozen", (dn.is_frozen(X), True), (True, True), dict(derived=how))
            before = observe.snapshot(X)
            got = None
            try:
                f(X)
            except Exception as ex:
                got = type(ex).__name__
            ctx.cell("frozen-chain:" + how)
            detail = dict(call=name, derived_from_frozen_graph_by=how)
            ctx.count("frozen:raises")
            if got is None:
                ctx.finding("frozen:raises", "unclassified:frozen:raises", dict(detail, observed="no exception"))
            d = observe.diff(before, observe.snapshot(X))
            ctx.expect("frozen:unchanged", d, [], dict(detail, exception=got, differing=d))


TIMED = ("add_interaction", "add_interactions_from", "add_path", "add_star", "add_cycle",
         "dn.add_path", "dn.add_star", "dn.add_cycle")


def frozen(ctx, dn, prog, m, directed):
    for name, f in frozen_calls(m, directed):
        F = rebuild(dn, prog, directed)
        r = dn.freeze(F)
        ctx.expect("frozen:is_frozen", (dn.is_frozen(F), r is F), (True, True), dict())
        before = observe.snapshot(F)
        got = None
        try:
            f(F, dn)
        except Exception as ex:
            got = type(ex).__name__
        ctx.cell("frozen:" + name)
        detail = dict(call=name)
        ctx.case["call"] = detail
        ctx.count("frozen:raises")
        if got is None:
            if name in TIMED:
                # known finding: freeze does not block the timed mutators
                ctx.finding("frozen:raises", "known:freeze-allows-add_interaction", dict(detail))
                continue
            ctx.finding("frozen:raises", "unclassified:frozen:raises", dict(detail, observed="no exception"))
        d = observe.diff(before, observe.snapshot(F))
        ctx.expect("frozen:unchanged", d, [], dict(detail, exception=got, differing=d))
        ctx.nontrivial(m.state_key(), "frozen", name)


def run(ctx, dn):
    rng = ctx.rng
    quick = ctx.tier == "quick"
    ctx.notes["networkx"] = nx.__version__
    k = 0
    while ctx.time_left() > 2:
        directed = rng.random() < 0.5
        prog, fam = gen.random_program(rng, lambda: Model(directed, True), directed=directed,
                                       n_ops=rng.randint(1, 8), family=rng.choice(("int", "str")))
        if k % 7 == 2:
            prog, directed = [("add", 5, 5, 1, 4)], False               # the whole adjacency is one self-loop
            ctx.cell("state:single-self-loop")
        elif k % 7 == 4:
            # every interaction points to a node inserted earlier
            prog, directed = [("node", 0, {}), ("node", 1, {}), ("node", 2, {}), ("add", 1, 0, 2, 5),
                              ("add", 2, 1, 3, None), ("add", 2, 0, 1, 3)], True
            ctx.cell("state:all-edges-backward")
        G, m, ok = driver.build_accepted(dn, prog, directed)
        if not ok or not m.nontrivial():
            ctx.skip("state not built")
            continue
        # keep only the accepted ops for the twins
        mm, kept = Model(directed, True), []
        for op in prog:
            if op[0] == "node":
                kept.append(op)
                continue
            m2 = mm.copy()
            if gen.advance(m2, op) is None:
                kept.append(op)
                mm = m2
        prog = kept
        ctx.cases += 1
        ctx.cell("class:" + ("DynDiGraph" if directed else "DynGraph"))
        ctx.case = dict(workload="API", directed=directed, program=prog)
        names = names_for(directed)
        ctx.notes["names_%s" % ("DiGraph" if directed else "Graph")] = len(names)
        cands = candidates(m, rng)
        if quick:
            # all names, a rotating third of the argument family per state
            cands = [c for i, c in enumerate(cands) if i % 3 == k % 3 or i == 0]
        enumerate_api(ctx, dn, prog, m, directed, cands, names)
        frozen(ctx, dn, prog, m, directed)
        if all(isinstance(n_, (int, str)) for n_ in m.nodes):
            frozen_chain(ctx, dn, prog, m, directed)
        if k < 2:
            ctx.sample(dict(ctx.case, names=names))
        k += 1
