"""C05 - the interaction stream is a chronological, faithful event log of presence."""
from .. import audit
from . import _hist

LEVEL = "exploration"
SHARDS = {"quick": 8, "thorough": 16}
BUDGET = {"quick": 18, "thorough": 200}
RULE = ("same history workloads as C01 (EX1/EX2/RND/STRESS; several pairs sharing event instants, undirected "
        "pairs given in either endpoint order); after every accepted call list(stream_interactions()) is checked "
        "offline: chronological, no repeated (pair,op,t), '+' events == run starts of the model's presence, every "
        "'-'@t has t-1 present and t absent, every run longer than one instant closed at end+1, and a 10-line "
        "replay of the log reconstructs the presence relation. distinct = distinct (canonical model state, last "
        "op kind).")
MIN = {"quick": {"stream:replay==presence": 20000, "stream:plus==run-starts": 20000},
       "thorough": {"stream:replay==presence": 400000, "stream:plus==run-starts": 400000}}
REQUIRED_CELLS = {t: ("rp:adjacent/point/onto-point", "rp:overlap/interval/onto-interval",
                      "rp:overlap@start/interval/onto-point", "rp:contained/interval/onto-interval",
                      "rp:duplicate/interval/onto-point") for t in ("quick", "thorough")}


def battery(ctx, dn, G, m):
    audit.audit_stream(ctx, dn, G, m)


def run(ctx, dn):
    if ctx.tier == "quick":
        _hist.exhaustive(ctx, dn, battery, 2, two_pairs_len=2)
        _hist.random_histories(ctx, dn, battery, until=3)
        _hist.stress(ctx, dn, battery, 1500, every=100)
    else:
        _hist.exhaustive(ctx, dn, battery, 3, two_pairs_len=3)
        _hist.random_histories(ctx, dn, battery, until=25)
        for _ in range(3):
            _hist.stress(ctx, dn, battery, 6000, every=200)
