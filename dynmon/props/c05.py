"""C05 - the interaction stream is a chronological, faithful event log of presence."""
from .. import audit
from . import _hist

LEVEL = "exploration"
SHARDS = {"quick": 8, "thorough": 16}
BUDGET = {"quick": 18, "thorough": 280}
EXHAUSTIVE = {"quick": False, "thorough": True}
RULE = ("same history workloads as C01 (EX1/EX2/RND/STRESS/PASSIVE; several pairs sharing event instants, undirected "
        "pairs given in either endpoint order); after every accepted call list(stream_interactions()) is checked "
        "offline: chronological, no repeated (pair,op,t), '+' events == run starts of the model's presence, every "
        "'-'@t has t-1 present and t absent, every run longer than one instant closed at end+1, and a 10-line "
        "replay of the log reconstructs the presence relation. distinct = distinct (canonical model state, last "
        "op kind).")
MIN = {"quick": {"stream:replay==presence": 20000, "stream:plus==run-starts": 20000},
       "thorough": {"stream:replay==presence": 400000, "stream:plus==run-starts": 400000}}
REQUIRED_CELLS = {t: ("rp:adjacent/point/onto-point", "rp:overlap/interval/onto-interval",
                      "rp:overlap@start/interval/onto-point", "rp:contained/interval/onto-interval",
                      "rp:duplicate/interval/onto-point", "derived-later:time_slice", "derived-later:to_directed",
                      "derived-later:to_undirected") for t in ("quick", "thorough")}


def battery(ctx, dn, G, m):
    audit.audit_stream(ctx, dn, G, m)


def derived_later(ctx, dn):
    """the stream of a derived graph (slice, conversion) is a faithful log when it is created AND still after
    its source has been updated (a shared interval list would let presence grow under an unchanged log)"""
    from .. import driver, gen
    from ..guard import guarded
    from ..model import Model
    from . import c06, c16
    rng = ctx.rng
    directed = rng.random() < 0.5
    prog, fam = gen.random_program(rng, lambda: Model(directed, True), directed=directed, with_nodes=False, p_big=0)
    G, m, ok = driver.build_accepted(dn, prog, directed)
    if not ok or not m.nontrivial():
        return
    ctx.cases += 1
    ctx.case = dict(workload="DERIVED-LATER", directed=directed, program=prog)
    ids = m.ids()
    made = [("time_slice", G.time_slice(ids[0] - 1, ids[-1] + 1), c06.slice_model(m, ids[0] - 1, ids[-1] + 1))]
    if directed:
        made.append(("to_undirected", G.to_undirected(), c16.und_model(m, False)))
    else:
        H = G.to_directed()
        both, single = c16.dir_model(m, list(G.nodes()), False), c16.dir_model(m, list(G.nodes()), True)
        made.append(("to_directed", H, both if c16.presence_matches(H, both, both.window(1)) else single))
    for name, H, h in made:
        ctx.case["constructor"] = name
        guarded(ctx, "derived", audit.audit_stream, ctx, dn, H, h, "derived:")
    c16.grow(ctx, G)
    for name, H, h in made:
        ctx.case["constructor"] = name + " (re-inspected after the source was updated)"
        ctx.cell("derived-later:" + name)
        # the log of H must agree with the presence H itself reports NOW (its timelines), whatever happened
        guarded(ctx, "derived-later", audit.audit_stream, ctx, dn, H, audit.model_from_timelines(H),
                "derived-later:")


def passive_battery(ctx, dn, G, m):
    # graphs built by the repository's own tests (removal-enabled ones; accumulative ones belong to C08)
    if m.removal:
        battery(ctx, dn, G, m)


def run(ctx, dn):
    if ctx.shard == 0:
        from .. import passive
        ctx.notes["passive_graphs"] = passive.run(ctx, dn, passive_battery)
    if ctx.tier == "quick":
        _hist.exhaustive(ctx, dn, battery, 2, two_pairs_len=2)
        _hist.second_life(ctx, dn, battery, 6)
        _hist.long_second_life(ctx, dn, battery)
        if ctx.shard % 2 == 0:
            _hist.bulk_load(ctx, dn, battery)
        _hist.around_zero(ctx, dn, battery, 2)
        _hist.stress(ctx, dn, battery, 300, every=100, base=2 ** 60)
        _hist.long_timelines(ctx, dn, battery, 4)
        _hist.random_histories(ctx, dn, battery, until=3, clears=True)
        _hist.stress(ctx, dn, battery, 1500, every=100)
        for _ in range(40):
            derived_later(ctx, dn)
    else:
        # every history of length <= 4 over one pair (2 x 2 625 640 histories over the 16 shards), then two pairs
        _hist.exhaustive(ctx, dn, battery, 4, two_pairs_len=3)
        _hist.second_life(ctx, dn, battery, 60)
        for _ in range(4):
            _hist.long_second_life(ctx, dn, battery)
        _hist.around_zero(ctx, dn, battery, 3)
        _hist.bulk_load(ctx, dn, battery)
        _hist.stress(ctx, dn, battery, 2000, every=200, base=2 ** 60)
        _hist.long_timelines(ctx, dn, battery, 40)
        _hist.random_histories(ctx, dn, battery, until=25, clears=True)
        for _ in range(3):
            _hist.stress(ctx, dn, battery, 6000, every=200)
        for _ in range(600):
            derived_later(ctx, dn)
