"""C10 - interaction-list files replay the event stream and round-trip presence."""
import io
import shutil

from .. import audit, driver, gen, iohelp
from ..guard import guarded, raised_in_library
from ..model import Model, runs
from . import c09

LEVEL = "exploration"
SHARDS = {"quick": 8, "thorough": 16}
BUDGET = {"quick": 22, "thorough": 240}
RULE = ("(a) round trip: random removal-enabled graphs of both classes over the same configuration grid as C09 (id "
        "type x delimiter x encoding x target): the written rows must equal list(stream_interactions()) in order; "
        "the graph read back must have the model's presence (audit C01/C03/C04) and the same stream. (b) reader "
        "semantics: well-formed event logs generated directly from random presence relations (closed runs, "
        "unclosed one-instant runs, repeated '+' inside/after a run, several pairs sharing instants, either "
        "endpoint order on undirected pairs) are parsed and compared with the log's model ('+' = appearance, '-' at "
        "t = present from the latest appearance through t-1). distinct = distinct (model state | log, "
        "configuration).")
MIN = {"quick": {"rows==stream": 1500, "read:has_interaction(u,v,t)": 30000, "read:stream==written": 1500,
                 "log:has_interaction(u,v,t)": 30000},
       "thorough": {"rows==stream": 30000, "read:has_interaction(u,v,t)": 600000, "read:stream==written": 30000,
                    "log:has_interaction(u,v,t)": 600000}}
REQUIRED_CELLS = {t: tuple("target:" + x for x in iohelp.TARGETS) + tuple("delim:%r" % d for d in iohelp.DELIMS) +
                  tuple("enc:" + e for e in iohelp.ENCODINGS) + ("ids:int", "ids:str", "ids:nonascii", "ids:numstr",
                                                               "class:DynGraph", "class:DynDiGraph",
                                                               "log:unclosed-single", "log:repeated-plus",
                                                               "src:big(>256 events)", "src:block-aligned-rows", "src:big-non-ascii")
                  for t in ("quick", "thorough")}


def de_model(m):
    """deviant model of known finding point-extended-run-unclosed: the written log has no '-' for the flagged
    two-instant runs, so their second instant is lost when the log is read back"""
    h = iohelp.retype(m)
    hit = False
    for k, starts in m.unclosed.items():
        for a in starts:
            if k in h.P and (a + 1) in h.P[k]:
                h.P[k].discard(a + 1)
                hit = True
    return h if hit else None


def presence_of(H, h, ts):
    return c09_presence(H, h, ts)


def c09_presence(H, h, ts):
    for u in h.nodes:
        for v in h.nodes:
            k = h.key(u, v)
            for t in ts:
                if H.has_interaction(u, v, t) != h.present(k, t):
                    return False
    return True


def roundtrip(ctx, dn, directed, idkind, delim, enc, target, big=False):
    r = c09.build(ctx, dn, directed, idkind, big)
    if not r:
        ctx.skip("graph not built")
        return
    G, m, prog = r
    ctx.cases += 1
    cfg = dict(directed=directed, ids=idkind, delimiter=delim, encoding=enc, target=target)
    ctx.case = dict(workload="ROUNDTRIP", program=prog, **cfg)
    d = iohelp.tmpdir()
    try:
        tgt = iohelp.Target(target, d)
        kw = dict(encoding=enc)
        if delim is not None:
            kw["delimiter"] = delim
        stream = list(G.stream_interactions())
        kw = iohelp.drop_defaults(ctx.rng, kw, iohelp.WRITE_DEFAULTS, ctx)
        try:
            # the target is passed positionally or by keyword (both are resolved by the same decorator)
            if ctx.rng.random() < 0.3:
                ctx.cell("path-by-keyword")
                tgt.write(lambda p: dn.write_interactions(G, path=p, **kw))
            else:
                tgt.write(lambda p: dn.write_interactions(G, p, **kw))
        except Exception as ex:
            if raised_in_library(ex):
                ctx.violation("write:raised", dict(cfg, exception=repr(ex)))
                return
            raise
        for c in ("target:" + target, "delim:%r" % (delim,), "enc:" + enc, "ids:" + idkind,
                  "class:" + ("DynDiGraph" if directed else "DynGraph")):
            ctx.cell(c)
        if target in ("fileobj", "bytesio"):
            ctx.expect("fileobj-left-open", tgt.closed_by_library, False, cfg)
        elif tgt.opened:
            # files the library opened for a path target must be closed when the call returns
            ctx.expect("path-target-closed", tgt.left_open, [], cfg)
        try:
            rows, trailing = iohelp.rows_of(tgt.data(), enc, delim)
        except (OSError, EOFError, UnicodeError, ValueError) as ex:
            # e.g. a '.gz' target that does not hold gzip data, or bytes that are not in the requested encoding
            ctx.violation("file:unreadable", dict(cfg, exception=repr(ex)))
            return
        ctx.expect("rows:newline-terminated", trailing, "", cfg)
        ctx.expect("rows==stream", rows, [tuple(str(x) for x in ev) for ev in stream], cfg)
        if big:
            ctx.cell("src:big(>256 events)" if len(stream) > 256 else "src:big(too small)")
        conv = int if idkind == "int" else str
        rk = dict(directed=directed, nodetype=conv, timestamptype=int, encoding=enc)
        if delim is not None:
            rk["delimiter"] = delim
        if conv is str:
            rk["nodetype"] = None if ctx.rng.random() < 0.5 else str      # the reader yields strings by itself
        rk = iohelp.drop_defaults(ctx.rng, rk, iohelp.READ_DEFAULTS, ctx)
        arg = tgt.read_arg()
        try:
            H = dn.read_interactions(path=arg, **rk) if ctx.rng.random() < 0.3 else dn.read_interactions(arg, **rk)
        except Exception as ex:
            if raised_in_library(ex):
                ctx.violation("read:raised", dict(cfg, exception=repr(ex)))
                return
            raise
        finally:
            if hasattr(arg, "close"):
                arg.close()
        ctx.expect("read:class", type(H) is (dn.DynDiGraph if directed else dn.DynGraph), True, cfg)
        h = iohelp.retype(m)
        dev = de_model(m)
        if dev is not None:
            ts = h.window(1)
            if not c09_presence(H, h, ts) and c09_presence(H, dev, ts):
                ctx.count("read:presence")
                ctx.finding("read:presence", "known:point-extended-run-unclosed",
                            dict(cfg, note="presence read back equals the deviant model exactly"))
                h = dev
        # (the per-snapshot audit builds one static graph per id: skipped for the 35 000-pair log)
        guarded(ctx, "read:audit", audit.audit_all, ctx, dn, H, h, "read:",
                ("C01", "C03") if big == "aligned-log" else ("C01", "C03", "C04"))
        def norm(evs):
            # same events irrespective of the integer type of the stamps (numpy / python) and of the order inside
            # an instant
            return sorted(((u, v, op, int(t)) for (u, v, op, t) in evs), key=lambda x: (x[3], repr(x[:3])))
        ctx.expect("read:stream==written", norm(H.stream_interactions()), norm(stream), cfg)
        ctx.nontrivial(m.state_key(), repr(sorted(cfg.items(), key=str)))
    finally:
        shutil.rmtree(d, ignore_errors=True)


def random_log(ctx, directed):
    """a well-formed event log and the presence relation it denotes"""
    rng = ctx.rng
    nodes = [1, 2, 3, 4][:rng.randint(2, 4)]
    pairs = []
    for _ in range(rng.randint(1, 4)):
        u, v = rng.choice(nodes), rng.choice(nodes)
        if (u, v) not in pairs and (directed or (v, u) not in pairs):
            pairs.append((u, v))
    events = []
    for (u, v) in pairs:
        t = rng.randint(-2, 4)
        for _ in range(rng.randint(1, 3)):
            length = rng.randint(1, 4)
            a, b = t, t + length - 1

            def ends():
                return (u, v) if directed or rng.random() < 0.7 else (v, u)
            events.append((a, 0, ends(), '+'))
            if length > 2 and rng.random() < 0.25:
                x = rng.randint(a + 1, b)       # repeated appearance inside the run
                events.append((x, 0, ends(), '+'))
                ctx.cell("log:repeated-plus")
                # by the stated semantics presence continues from the LATEST appearance; instants between
                # the first '+' and this one are only the first instant (unclosed '+' = one instant)
            if length == 1 and rng.random() < 0.5:
                ctx.cell("log:unclosed-single")
            else:
                events.append((b + 1, 1, ends(), '-'))
            t = b + 1 + rng.randint(1, 3)
    events.sort(key=lambda x: (x[0], rng.random()))
    log = [(p[0], p[1], op, t) for (t, _, p, op) in events]
    return log


def log_case(ctx, dn):
    rng = ctx.rng
    directed = rng.random() < 0.5
    log = random_log(ctx, directed)
    m = Model(directed, True)
    P, err = audit.replay_stream(log, m.key)
    if err:
        raise AssertionError("generator produced an ill-formed log: %r" % (err,))
    for (u, v, op, t) in log:
        k = m.key(u, v)
        if k not in m.orient:
            m.orient[k] = (u, v)
            m.nodes.setdefault(u, {})
            m.nodes.setdefault(v, {})
    for k, s in P.items():
        m.P[k] = s
        m.first[k] = min(s)
    delim = rng.choice(iohelp.DELIMS)
    lines = [(delim or " ").join(str(x) for x in ev) for ev in log]
    ctx.cases += 1
    ctx.case = dict(workload="LOG", directed=directed, delimiter=delim, lines=lines)
    kw = dict(directed=directed, nodetype=int, timestamptype=int)
    if delim is not None:
        kw["delimiter"] = delim
    kw = iohelp.drop_defaults(rng, kw, iohelp.READ_DEFAULTS, ctx)
    try:
        if rng.random() < 0.5:
            H = dn.parse_interactions(lines, **kw)
        else:
            H = dn.read_interactions(io.BytesIO(("\n".join(lines) + "\n").encode("utf-8")), **kw)
    except Exception as ex:
        if raised_in_library(ex):
            ctx.violation("log:raised", dict(lines=lines, exception=repr(ex)))
            return
        raise
    guarded(ctx, "log:audit", audit.audit_all, ctx, dn, H, m, "log:", ("C01", "C03", "C04"))
    ctx.nontrivial("log", tuple(lines), directed)
    if len(ctx.samples) < 6 and rng.random() < 0.01:
        ctx.sample(ctx.case)


def run(ctx, dn):
    rng = ctx.rng
    grid = [(d, i, dl, e, t) for d in (False, True) for i in ("int", "numstr", "str", "nonascii")
            for dl in iohelp.DELIMS for e in iohelp.ENCODINGS for t in iohelp.TARGETS]
    rng.shuffle(grid)
    n = 0
    roundtrip(ctx, dn, rng.random() < 0.5, "int", rng.choice(iohelp.DELIMS), "utf-8", rng.choice(iohelp.TARGETS), big=True)
    roundtrip(ctx, dn, rng.random() < 0.5, "str", rng.choice((None, ",", "|")), "utf-8", rng.choice(iohelp.TARGETS),
              big="nonascii-big")
    ctx.cell("src:big-non-ascii")
    if ctx.shard % 4 == 1:
        # an event log whose rows are 16 bytes each (64 KiB / 1 MiB block boundaries fall between two rows)
        roundtrip(ctx, dn, ctx.shard % 8 == 1, "int", None, "utf-8", rng.choice(("path.txt", "path.gz", "bytesio")),
                  big="aligned-log")
        ctx.cell("src:block-aligned-rows")
    while ctx.time_left() > 1:
        roundtrip(ctx, dn, *grid[n % len(grid)])
        if n < 2:
            ctx.sample(ctx.case)
        for _ in range(3):
            log_case(ctx, dn)
        n += 1
    ctx.notes["grid_size"] = len(grid)
    ctx.notes["configs_visited"] = n
