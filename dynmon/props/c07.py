"""C07 - a rejected update leaves no trace  (fault enumeration at the API boundary)."""
from .. import driver, gen, observe
from ..guard import raised_in_library
from ..model import Model, runs

LEVEL = "fault_enumeration"
SHARDS = {"quick": 8, "thorough": 16}
BUDGET = {"quick": 18, "thorough": 200}
RULE = ("for every state reached by a generated history (both classes, both modes; EX = every history of length "
        "<= L over the single-pair alphabet, RND = random histories) every rejectable call is enumerated: each "
        "existing pair (both endpoint orders) x every t below the start of its latest run within the window (and "
        "t=None) x with/without vanishing time, through add_interaction, add_interactions_from and "
        "add_path/add_star/add_cycle (method and dn. forms) with the failing element at every position of the "
        "bunch. The call is made on a twin T rebuilt from the same history; oracle: exception type as modelled, "
        "snapshot(T) (nodes+attrs in order, interactions+timelines, adjacency from every node, ids, counts, "
        "stream) == snapshot of a twin that received only the preceding elements; then a random legal "
        "continuation is applied to both and outcomes+snapshots compared after every step. A fault is non-trivial "
        "when the call was really rejected; distinct = distinct (model state, fault call).")
MIN = {"quick": {"rejected:no-trace": 12000, "continuation:same-observables": 4000},
       "thorough": {"rejected:no-trace": 400000, "continuation:same-observables": 100000}}
REQUIRED_CELLS = {t: ("fault:add", "fault:addfrom", "fault:path", "fault:star", "fault:cycle", "fault:dn.path",
                      "fault:t=None", "fault:dn.star", "fault:large-bunch", "mode:accumulative", "mode:removal", "class:DynGraph", "class:DynDiGraph")
                  for t in ("quick", "thorough")}


def rebuild(dn, prog, directed, removal):
    G = driver.new_graph(dn, directed, removal)
    for op in prog:
        try:
            driver.call(dn, G, op)
        except Exception:
            pass
    return G


def faults_for(rng, m, directed, limit):
    """rejectable calls in state m (removal semantics decide which are *expected* to be rejected; in
    accumulative mode the same candidates are tried and only those really rejected are judged)"""
    out = []
    nodes = list(m.nodes)
    for k in list(m.P):
        if not m.P[k]:
            continue
        u, v = m.orient[k]
        a = runs(m.P[k])[-1][0]
        lo = min(m.ids()) - 1
        ts = list(range(lo, a))[-4:]
        # vanishing times: none, inside, and exactly where the pair already owns a '-' event (end+1 of its runs)
        ends = sorted(set(b + 1 for (_a, b) in runs(m.P[k])))
        for t in ts:
            for e in [None, t + 1, a + 1, a + 3] + [x for x in ends if x > t][:3]:
                for (x, y) in ((u, v),) if directed else ((u, v), (v, u)):
                    out.append(("add", x, y, t, e))
            # bulk helpers with the failing pair at every position
            others = [n for n in nodes if n not in (u, v)] + ["f1", "f2"]
            o1, o2 = others[0], others[1]
            out.append(("addfrom", [(u, v), (o1, o2)], t, None))
            out.append(("addfrom", [(o1, o2), (u, v)], t, t + 2))
            out.append(("addfrom", [(o1, o2), (o2, u), (u, v), (v, o1)], t, None))
            out.append(("path", [u, v, o1], t))
            out.append(("path", [o1, u, v], t))
            out.append(("dn.path", [o1, o2, u, v, "f3"], t, rng.choice((None, t + 1))))
            if not directed:
                out.append(("star", [u, o1, v, o2], t))
                out.append(("cycle", [o1, u, v], t))
                out.append(("cycle", [v, o1, u], t))       # failing element is the closing one
            out.append(("dn.star", [u, v, o1], t, None))
            # a large bunch (new pairs before and after the failing known pair)
            fresh = ["L%d" % i for i in range(22)]
            big = [(fresh[i], fresh[i + 1]) for i in range(10)] + [(u, v)] + \
                  [(fresh[i], fresh[i + 1]) for i in range(11, 21)]
            out.append(("addfrom", big, t, None if t % 2 else t + 2))
            out.append(("addfrom", big, t, t + 300))            # long spans in a bunch that fails half-way
            if rng.random() < 0.04:
                fresh = ["K%d" % i for i in range(1300)]
                kilo = [(fresh[i], fresh[i + 1]) for i in range(600)] + [(u, v)] + \
                       [(fresh[i], fresh[i + 1]) for i in range(601, 1250)]
                out.append(("addfrom", kilo, t, None))               # a sized bunch of more than 1000 pairs
            if rng.random() < 0.15:
                fresh = ["H%d" % i for i in range(140)]
                huge = [(fresh[i], fresh[i + 1]) for i in range(60)] + [(u, v)] + \
                       [(fresh[i], fresh[i + 1]) for i in range(61, 135)]
                out.append(("addfrom", huge, t, None))
            out.append(("dn.cycle", [o1, o2, v, u] if not directed else [o1, o2, u, v], t, None))
    out.append(("add", "g1", "g2", None, None))
    out.append(("add", nodes[0] if nodes else "g1", "g2", None, 5))
    out.append(("addfrom", [("g1", "g2")], None, None))
    out.append(("path", ["g1", "g2", "g3"], None))
    out.append(("dn.star", ["g4", "g5", "g6"], None, None))
    out.append(("dn.path", ["g7", nodes[0] if nodes else "g8"], None, None))
    out.append(("dn.cycle", ["g9", "g10", "g11"], None, 4))
    if len(out) > limit:
        keep = out[-7:]
        out = rng.sample(out[:-7], limit - 7) + keep
    return out


def preceding(op):
    """ops equivalent to the elements of a bulk op, as single adds"""
    return [("add", u, v, t, e) for (u, v, t, e) in gen.elements(op)]


def continuation(rng, m, n):
    """random legal ops from the model's point of view (advanced on a copy)"""
    mm = m.copy()
    out = []
    nodes = list(mm.nodes) or [0, 1]
    for _ in range(n):
        if mm.P and rng.random() < 0.7:
            k = rng.choice(list(mm.P))
            u, v = mm.orient[k]
            latest = runs(mm.P[k])[-1]
            span = gen.rp_span(rng, latest, rng.choice(gen.RP_CLASSES[1:]), rng.choice(("point", "interval")))
            if span is None:
                span = (latest[1] + 1, None)
        else:
            u, v = rng.choice(nodes), rng.choice(nodes + ["f1"])
            base = max(mm.ids() or [0])
            span = (base + rng.randint(0, 2), None)
            k = mm.key(u, v)
            if k in mm.P and mm.P[k] and span[0] < runs(mm.P[k])[-1][0]:
                continue
        op = ("add", u, v, span[0], span[1])
        out.append(op)
        gen.advance(mm, op)
    return out


def judge(ctx, dn, prog, m, directed, removal, fault):
    rng = ctx.rng
    T = rebuild(dn, prog, directed, removal)
    # a reader that started on the stream before the call and finishes afterwards must see the whole
    # original log if the call is rejected (no trace, also for a suspended reader)
    full_before = list(T.stream_interactions())
    reader = T.stream_interactions()
    head = next(reader, None)
    got, ex = driver.outcome(dn, T, fault)
    els = gen.elements(fault)
    kind = fault[0]
    # expected outcome under removal semantics
    m2 = m.copy()
    exp = gen.advance(m2, fault) if removal else None
    if removal:
        if not ctx.expect("rejected:exception-type", got, exp, dict(fault=fault, message=str(ex) if ex else None)):
            return
        if exp is None:
            return
        n_before = 0
        mm = m.copy()
        if not (kind != "add" and els and els[0][2] is None):
            for (u, v, t, e) in els:
                if mm.verdict(u, v, t, e):
                    break
                mm.apply(u, v, t, e)
                n_before += 1
    else:
        if got is None:
            ctx.skip("accumulative: call accepted, not a fault")
            return
        ctx.count("rejected:exception-type(accumulative)")
        if got not in ("ValueError", "NetworkXError"):
            ctx.violation("rejected:exception-type(accumulative)", dict(fault=fault, observed=got))
            return
        if kind != "add":
            ctx.skip("accumulative: bulk faults not judged")
            return
        n_before = 0
        mm = m
    ctx.cell("fault:" + ("t=None" if els and els[0][2] is None else kind))
    if len(els) > 16:
        ctx.cell("fault:large-bunch")
    if kind == "dn.star":
        ctx.cell("fault:dn.star")
    ctx.cell("mode:" + ("removal" if removal else "accumulative"))
    ctx.cell("class:" + ("DynDiGraph" if directed else "DynGraph"))
    if n_before == 0:
        try:
            resumed = ([head] if head is not None else []) + list(reader)
            ctx.expect("rejected:suspended-stream-reader", resumed, full_before, dict(fault=fault))
        except Exception as ex2:
            ctx.violation("rejected:suspended-stream-reader", dict(fault=fault, exception=repr(ex2)))
    pre = preceding(fault)[:n_before] if kind != "add" else []
    R = rebuild(dn, list(prog) + pre, directed, removal)
    sT, sR = observe.snapshot(T), observe.snapshot(R)
    d = observe.diff(sR, sT)
    ctx.expect("rejected:no-trace", d, [], dict(
        fault=fault, preceding_elements=n_before,
        differing={k: dict(after_rejected_call=sT[k], reference=sR[k]) for k in d[:3]}))
    ctx.nontrivial(m.state_key(), removal, repr(fault))
    # later legal calls behave as if the rejected call had never been made
    cont = continuation(rng, mm, 3)
    for i, op in enumerate(cont):
        a, _ = driver.outcome(dn, T, op)
        b, _ = driver.outcome(dn, R, op)
        sT, sR = observe.snapshot(T), observe.snapshot(R)
        d = ([] if a == b else ["outcome"]) + observe.diff(sR, sT)
        ok = ctx.expect("continuation:same-observables", d, [], dict(
            fault=fault, continuation=cont[:i + 1], outcomes=(a, b),
            differing={k: dict(after_rejected_call=sT[k], reference=sR[k]) for k in d[:3] if k != "outcome"}))
        if not ok:
            break


def one_state(ctx, dn, prog, directed, removal, limit):
    if removal:
        G, m, ok = driver.build_accepted(dn, prog, directed, True)
    else:
        # accumulative: the model only needs to know pairs and accepted instants
        G = driver.new_graph(dn, directed, False)
        m = Model(directed, False)
        ok = True
        for op in prog:
            if op[0] == "node":
                driver.call(dn, G, op)
                m.add_node(op[1], **op[2])
                continue
            if op[0] != "add" or op[3] is None:
                continue
            got, ex = driver.outcome(dn, G, op)
            if got is None:
                m.apply(op[1], op[2], op[3], op[4])
        prog = [op for op in prog if op[0] in ("add", "node")]
    if not ok or not m.P:
        ctx.skip("state not built or empty")
        return
    ctx.cases += 1
    ctx.case = dict(workload="FAULT", directed=directed, removal=removal, program=prog)
    # in removal mode keep only the ops a correct library accepts (the twin is rebuilt from them)
    if removal:
        mm = Model(directed, True)
        kept = []
        for op in prog:
            if op[0] == "node":
                kept.append(op)
                mm.add_node(op[1], **op[2])
                continue
            m2 = mm.copy()
            if gen.advance(m2, op) is None:
                kept.append(op)
                mm = m2
        prog = kept
        ctx.case["program"] = prog
        mview = m
    else:
        # candidate faults are placed relative to the accepted instants
        mview = Model(directed, True)
        mview.nodes = dict(m.nodes)
        for k in m.P:
            mview.P[k] = set(m.P[k])
            mview.orient[k] = m.orient[k]
            mview.first[k] = m.first[k]
    for fault in faults_for(ctx.rng, mview, directed, limit):
        ctx.case["fault"] = fault
        try:
            judge(ctx, dn, prog, m, directed, removal, fault)
        except Exception as ex:
            if raised_in_library(ex):
                ctx.violation("raised:observing", dict(fault=fault, exception=repr(ex)))
            else:
                raise
    if len(ctx.samples) < 4:
        ctx.sample(dict(program=prog, directed=directed, removal=removal, last_fault=ctx.case.get("fault")))


def run(ctx, dn):
    quick = ctx.tier == "quick"
    # EX: every state of the single-pair universe
    alpha = gen.all_single_pair_ops(tmax=3, spans=(None, 1, 2), orders=True)
    for directed in (False, True):
        for prog in gen.enumerate_histories(alpha, 2 if quick else 3, ctx.shard, ctx.nshards):
            if ctx.time_left() < ctx.budget_s * 0.5:
                break
            one_state(ctx, dn, prog, directed, True, 12 if quick else 30)
    ctx.notes["ex_done"] = 1 if ctx.time_left() >= ctx.budget_s * 0.5 else 0
    while ctx.time_left() > 1:
        directed = ctx.rng.random() < 0.5
        removal = ctx.rng.random() < 0.7
        prog, fam = gen.random_program(ctx.rng, lambda: Model(directed, True), directed=directed,
                                       bulk=removal, n_ops=ctx.rng.randint(1, 10))
        one_state(ctx, dn, prog, directed, removal, 14 if quick else 30)
