"""C14 - annotate_paths selects exactly the optimal paths for each criterion."""
import itertools

from ..guard import raised_in_library
from . import _paths

LEVEL = "exploration"
SHARDS = {"quick": 8, "thorough": 16}
BUDGET = {"quick": 15, "thorough": 150}
EXHAUSTIVE = {"quick": False, "thorough": True}
RULE = ("EX = every list (order matters, repetition allowed) of <= L paths drawn from a pool of 12 synthetic paths "
        "between one node pair with ties on hop count, duration and arrival (quick L=2, thorough L=4); SYN = random "
        "synthetic lists (single-hop paths, ties, duplicates, shuffles, lists and tuples; time scales: small, "
        "hundreds, nanosecond epochs beyond 2**53, numpy integers; the same list annotated again after a path was "
        "edited in place); REAL = the per-key lists "
        "returned by time_respecting_paths on random temporal graphs. Oracle: direct recomputation of each "
        "criterion (fewest hops, minimal last-first time, earliest arrival, lexicographic combinations) compared "
        "as sets of paths; every output path is an element of the input; the five keys exist; path_length == hop "
        "count and path_duration == last minus first time. distinct = distinct input lists; non-trivial = the list "
        "has at least two different paths.")
MIN = {"quick": {"annotate==recomputed": 15000, "outputs-are-inputs": 15000, "path_length/duration": 15000},
       "thorough": {"annotate==recomputed": 400000, "outputs-are-inputs": 400000, "path_length/duration": 400000}}
REQUIRED_CELLS = {t: ("input:real", "input:synthetic", "input:exhaustive", "tie:shortest", "tie:fastest",
                      "tie:foremost", "times:hundreds", "times:huge", "times:numpy", "times:numpy-huge", "times:beyond-int64", "times:span>=2**64", "times:bool-first",
                      "input:edited-in-place")
                  for t in ("quick", "thorough")}

# paths between nodes 0 and 9: (hops, first time, last time) chosen to collide on every criterion
POOL = [
    ((0, 9, 5),),
    ((0, 9, 3),),
    ((0, 9, 8),),
    ((0, 1, 1), (1, 9, 3)),
    ((0, 2, 2), (2, 9, 3)),
    ((0, 1, 1), (1, 9, 5)),
    ((0, 3, 4), (3, 9, 5)),
    ((0, 1, 0), (1, 2, 1), (2, 9, 2)),
    ((0, 1, 1), (1, 2, 2), (2, 9, 3)),
    ((0, 4, 0), (4, 5, 4), (5, 9, 8)),
    ((0, 1, 2), (1, 2, 3), (2, 3, 4), (3, 9, 5)),
    ((0, 6, 7), (6, 9, 8)),
]


def reference(paths):
    ps = [tuple(p) for p in paths]
    ln = lambda p: len(p)
    du = lambda p: p[-1][-1] - p[0][-1]
    ar = lambda p: p[-1][-1]
    shortest = set(p for p in ps if ln(p) == min(map(ln, ps)))
    fastest = set(p for p in ps if du(p) == min(map(du, ps)))
    foremost = set(p for p in ps if ar(p) == min(map(ar, ps)))
    fs = set(p for p in shortest if du(p) == min(map(du, shortest)))
    sf = set(p for p in fastest if ln(p) == min(map(ln, fastest)))
    return dict(shortest=shortest, fastest=fastest, foremost=foremost, fastest_shortest=fs, shortest_fastest=sf)


def check(ctx, al, paths, kind):
    ctx.cases += 1
    ctx.cell("input:" + kind)
    ctx.case = dict(workload=kind, paths=paths)
    try:
        res = al.annotate_paths(paths)
    except Exception as ex:
        if raised_in_library(ex):
            ctx.violation("raised", dict(paths=paths, exception=repr(ex)))
            return
        raise
    ref = reference(paths)
    for k in ("shortest", "fastest", "foremost"):
        if len(ref[k]) > 1:
            ctx.cell("tie:" + k)
    ok_keys = isinstance(res, dict) and set(res) == set(ref)
    ctx.expect("five-keys", ok_keys, True, dict(keys=sorted(res) if isinstance(res, dict) else None))
    if not ok_keys:
        return
    try:
        obs = {k: set(tuple(map(tuple, p)) for p in v) for k, v in res.items()}
    except TypeError as ex:
        # a value that is not a list of paths (lists of hops): nothing to compare, the answer is malformed
        ctx.violation("annotate:malformed-output", dict(paths=paths, result=repr(res)[:400], exception=repr(ex)))
        return
    ctx.expect("annotate==recomputed", obs, ref, dict(paths=paths))
    inputs = set(tuple(map(tuple, p)) for p in paths)
    stray = [p for v in obs.values() for p in v if p not in inputs]
    ctx.expect("outputs-are-inputs", stray, [], dict(paths=paths))
    p = paths[0]
    ctx.expect("path_length/duration", (al.path_length(p), al.path_duration(p)),
               (len(p), p[-1][-1] - p[0][-1]), dict(path=p))
    if len(inputs) > 1:
        ctx.nontrivial(tuple(map(tuple, paths)))
    else:
        ctx.nontrivial("single", tuple(map(tuple, paths)))


def run(ctx, dn):
    import dynetx.algorithms as al
    rng = ctx.rng
    L = 2 if ctx.tier == "quick" else 4
    n = 0
    for ln in range(1, L + 1):
        for i, combo in enumerate(itertools.product(range(len(POOL)), repeat=ln)):
            if i % ctx.nshards != ctx.shard:
                continue
            check(ctx, al, [POOL[j] for j in combo], "exhaustive")
            n += 1
    ctx.notes["ex_lists"] = n
    ctx.sample(ctx.case)
    k = 0
    while ctx.time_left() > 1:
        if k % 3 == 0:
            G, m, nodes, pres = _paths.random_temporal_graph(rng, dn)
            try:
                res = al.time_respecting_paths(G, rng.choice(nodes))
            except Exception:
                res = None
            if res:
                for key, pl in list(res.items())[:4]:
                    pl = list(pl)
                    rng.shuffle(pl)
                    check(ctx, al, pl, "real")
        else:
            cnt = rng.randint(1, 7)
            pl = []
            # time scales: small, hundreds (durations beyond the small-int cache), nanosecond epochs beyond 2**53
            # (a few ns apart), numpy integers
            scale = rng.choice(("small", "small", "hundreds", "huge", "numpy", "numpy-huge", "beyond-int64",
                                "span>=2**64", "bool-first"))
            ctx.cell("times:" + scale)
            base = {"small": 0, "hundreds": 1000, "huge": 2 ** 60, "numpy": 0, "numpy-huge": 2 ** 53,
                    "beyond-int64": 2 ** 63, "span>=2**64": 0, "bool-first": 0}[scale]
            step = {"small": 3, "hundreds": 400, "huge": 3, "numpy": 300, "numpy-huge": 2, "beyond-int64": 3,
                    "span>=2**64": 2 ** 64, "bool-first": 3}[scale]
            for _ in range(cnt):
                if pl and rng.random() < 0.2:
                    pl.append(rng.choice(pl))
                    continue
                hops = rng.randint(1, 4)
                t = base + rng.randint(0, 4) * (step if scale == "hundreds" else 1)
                p, a = [], 0
                for h in range(hops):
                    b = 9 if h == hops - 1 else rng.randint(1, 8)
                    tt = t
                    if scale in ("numpy", "numpy-huge"):
                        import numpy as np
                        tt = np.int64(t)
                    if scale == "bool-first" and h == 0 and t in (0, 1):
                        tt = bool(t)             # snapshot 0 / 1 written as False / True
                    p.append((a, b, tt))
                    a = b
                    t += rng.randint(1, step)
                pl.append(tuple(p) if rng.random() < 0.7 else list(p))
            check(ctx, al, pl, "synthetic")
            # the same list object annotated again after one of its paths was edited in place
            mutable = [i for i, q in enumerate(pl) if isinstance(q, list)]
            if mutable and rng.random() < 0.5:
                i = rng.choice(mutable)
                last = pl[i][-1]
                pl[i].append((last[1], 9, last[2] + rng.randint(1, step)))
                if rng.random() < 0.5 and len(pl[i]) > 2:
                    del pl[i][0]
                    pl[i][0] = (0,) + tuple(pl[i][0][1:])
                ctx.cell("input:edited-in-place")
                check(ctx, al, pl, "synthetic")
        if k < 2:
            ctx.sample(ctx.case)
        k += 1
