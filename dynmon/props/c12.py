"""C12 - every returned time-respecting path is a genuine one."""
from .. import pathsref
from ..guard import raised_in_library
from . import _paths

LEVEL = "exploration"
SHARDS = {"quick": 8, "thorough": 16}
BUDGET = {"quick": 22, "thorough": 240}
RULE = ("random removal-enabled temporal graphs of both classes (3-6 nodes, <= 7 snapshot ids with gaps, int or "
        "'_'-free string ids, occasional self-loops) and (thorough) every graph of the 3-node/4-instant universe; "
        "queries: every source u in the graph x target v in nodes + {None, u} x windows strictly inside the "
        "snapshot range, touching it, in gaps between ids, and defaults; sample in {1, 0.5}; plus "
        "all_time_respecting_paths. Every returned path is validated offline hop by hop: tuple of 3-tuples, first "
        "hop leaves u, chaining, strictly increasing times inside [start,end], hop present in the model at its time "
        "(a->b on digraphs), no immediate reversal, intermediate nodes never idle at a snapshot between arrival "
        "and departure, last hop reaches v, key == (first node, last node), no duplicate under a key, return type "
        "dict or empty list. distinct = distinct (graph, query); non-trivial = the query returned at least one path.")
MIN = {"quick": {"path:genuine": 20000, "key": 5000},
       "thorough": {"path:genuine": 400000, "key": 100000}}
REQUIRED_CELLS = {t: ("class:DynGraph", "class:DynDiGraph", "ids:int", "ids:str", "v:None", "v:node", "v:u",
                      "window:inside", "window:default", "sample<1", "all_time_respecting_paths",
                      "motif:closed-walk+idle+departure", "second-life", "long-timeline")
                  for t in ("quick", "thorough")}


def validate(ctx, m, res, u, v, start, end, q):
    ctx.count("return-type")
    if res == [] or res == {}:
        return 0
    if not isinstance(res, dict):
        ctx.violation("return-type", dict(q, observed=type(res).__name__))
        return 0
    n = 0
    for key, plist in res.items():
        ctx.expect("no-duplicates", len(set(map(tuple, plist))) == len(plist), True, dict(q, key=key))
        for p in plist:
            n += 1
            probs = pathsref.path_problems(m, p, u, v, start, end)
            ctx.expect("path:genuine", probs, [], dict(q, path=p))
            if len(p) and all(isinstance(h, tuple) and len(h) == 3 for h in p):
                ctx.expect("key", key, (p[0][0], p[-1][1]), dict(q, path=p))
    return n


def queries(ctx, m, nodes):
    rng = ctx.rng
    ids = m.ids()
    out = []
    for u in nodes:
        for v in [None, u] + rng.sample(nodes, min(2, len(nodes))):
            ws = [(None, None, "default")]
            if len(ids) >= 3:
                a = rng.randint(0, len(ids) - 2)
                b = rng.randint(a, len(ids) - 2)
                ws.append((ids[a], ids[b], "inside"))          # ends before the last id: the overshoot case
                if ids[b] + 1 < ids[b + 1]:
                    ws.append((ids[a], ids[b] + 1, "inside"))  # end in a gap between ids
            ws.append((ids[0], ids[-1], "full"))
            if ids[0] < 0 <= ids[-1]:
                ws.append((0, ids[-1], "start=0"))         # an explicit start that happens to be falsy
                ws.append((0, ids[-1], "start=0"))
            w = rng.choice(ws)
            out.append((u, v, w[0], w[1], w[2], 1 if rng.random() < 0.8 else 0.5))
    return out


def one_graph(ctx, dn, G, m, nodes, strings):
    # one graph with all its queries, under a wall-clock alarm (a library call that does not return within the
    # deadline is abandoned and counted as skipped, never judged)
    from ..core import case_deadline
    with case_deadline(ctx, 40):
        _one_graph_body(ctx, dn, G, m, nodes, strings)


def _one_graph_body(ctx, dn, G, m, nodes, strings):
    import dynetx.algorithms as al
    ctx.cases += 1
    ctx.cell("class:" + ("DynDiGraph" if m.directed else "DynGraph"))
    ctx.cell("ids:" + ("str" if strings else "int"))
    for (u, v, start, end, wkind, sample) in queries(ctx, m, nodes):
        q = dict(u=u, v=v, start=start, end=end, sample=sample)
        ctx.case["query"] = q
        try:
            res = _paths.trp(al, ctx.rng, G, u, v, start, end, sample)
        except Exception as ex:
            if raised_in_library(ex):
                ctx.violation("raised", dict(q, exception=repr(ex)))
                continue
            raise
        n = validate(ctx, m, res, u, v, start, end, q)
        ctx.cell("v:" + ("None" if v is None else "u" if v == u else "node"))
        ctx.cell("window:" + wkind)
        if sample < 1:
            ctx.cell("sample<1")
        if n:
            ctx.nontrivial(m.state_key(), repr(q))
    # all_time_respecting_paths: every path under (u, w) leaves u and reaches w
    ids = m.ids()
    mt = ctx.rng.choice([None] + ids)
    q = dict(fn="all_time_respecting_paths", min_t=mt)
    try:
        res = _paths.atrp(al, ctx.rng, G, None, None, 1, mt)
    except Exception as ex:
        if raised_in_library(ex):
            ctx.violation("raised", dict(q, exception=repr(ex)))
            return
        raise
    ctx.cell("all_time_respecting_paths")
    for (a, b), plist in res.items():
        for p in plist:
            ctx.expect("path:genuine", pathsref.path_problems(m, p, a, b, None, None), [], dict(q, path=p))


def run(ctx, dn):
    rng = ctx.rng
    if ctx.tier == "thorough":
        for directed in (False, True):
            for pres in _paths.all_small_graphs(directed, ctx.shard, ctx.nshards):
                if ctx.time_left() < ctx.budget_s * 0.5:
                    break
                G, m = _paths.graph_from_presence(dn, directed, pres)
                ctx.case = dict(workload="EX-GRAPHS", directed=directed, presence=pres)
                one_graph(ctx, dn, G, m, [0, 1, 2], False)
    k = 0
    while ctx.time_left() > 1:
        strings = rng.random() < 0.4
        if k % 6 == 3:
            G, m, nodes, pres = _paths.motif_graph(rng, dn, strings=strings)
            ctx.cell("motif:closed-walk+idle+departure")
            ctx.case = dict(workload="MOTIF", directed=m.directed, presence=pres)
        else:
            G, m, nodes, pres = _paths.random_temporal_graph(rng, dn, strings=strings)
            ctx.case = dict(workload="RND-GRAPHS", directed=m.directed, presence=pres)
        one_graph(ctx, dn, G, m, nodes, strings)
        if k % 9 == 4:
            G, m, nodes, pres = _paths.long_pair_graph(rng, dn, strings=strings)
            ctx.case = dict(workload="LONG-PAIR", directed=m.directed, presence=pres)
            ctx.cell("long-timeline")
            one_graph(ctx, dn, G, m, nodes, strings)
        if k % 5 == 1:
            # second life: queried, emptied, refilled unobserved to the same number of snapshot ids, queried again
            m2 = _paths.refill_after_clear(rng, dn, G, m)
            ctx.case = dict(workload="SECOND-LIFE", directed=m.directed, first_life=pres,
                            presence={repr(kk): sorted(v) for kk, v in m2.P.items()})
            ctx.cell("second-life")
            one_graph(ctx, dn, G, m2, [n for n in nodes if n in m2.nodes] or list(m2.nodes), strings)
        if k < 3:
            ctx.sample(ctx.case)
        k += 1
