"""C01 - interaction presence is exactly the union of the spans that were added."""
from .. import audit
from . import _hist

LEVEL = "exploration"
SHARDS = {"quick": 8, "thorough": 16}
BUDGET = {"quick": 18, "thorough": 280}
EXHAUSTIVE = {"quick": False, "thorough": True}
RULE = ("histories of add_interaction/add_interactions_from/add_path/add_star/add_cycle (method and dn. forms) "
        "run in lock-step with the reference model; after every call the outcome (accepted / ValueError / "
        "NetworkXError, nothing else) and has_interaction(u,v[,t]) for all pairs over the known nodes, both "
        "argument orders, unknown nodes, every t in [min-1,max+1] plus two far instants are compared with the "
        "union of added spans. EX1 = all histories over one pair (both endpoint orders, t<=4, e in "
        "{None,t+1,t+2,t+3}) up to the tier's length on both classes; EX2 = two pairs sharing a node + self-loop; "
        "RND = random histories biased to every relative-position class; STRESS = long histories; PASSIVE = the "
        "repository's own tests run in-process under a probe on add_interaction, every graph they build audited at "
        "test end. A case is "
        "non-trivial when the final model state has at least one interaction; distinct = distinct (canonical "
        "model state, last op kind).")
MIN = {"quick": {"has_interaction(u,v,t)": 100000, "add_interaction:outcome": 20000},
       "thorough": {"has_interaction(u,v,t)": 1000000, "add_interaction:outcome": 200000}}
REQUIRED_CELLS = {t: tuple("rp:%s/%s/%s" % c for c in (
    ("before", "point", "onto-point"), ("before", "interval", "onto-interval"),
    ("gap", "point", "onto-point"), ("gap", "interval", "onto-interval"),
    ("adjacent", "point", "onto-point"), ("adjacent", "point", "onto-interval"),
    ("adjacent", "interval", "onto-point"), ("adjacent", "interval", "onto-interval"),
    ("overlap", "interval", "onto-interval"), ("overlap@start", "interval", "onto-point"),
    ("overlap@start", "interval", "onto-interval"), ("contained", "point", "onto-interval"),
    ("contained", "interval", "onto-interval"), ("contained@end", "point", "onto-interval"),
    ("contained@end", "interval", "onto-interval"), ("duplicate", "point", "onto-point"),
    ("duplicate", "interval", "onto-point"), ("duplicate", "interval", "onto-interval")))
    for t in ("quick", "thorough")}


def battery(ctx, dn, G, m):
    audit.audit_presence(ctx, dn, G, m)


def passive_battery(ctx, dn, G, m):
    # graphs built by the repository's own tests (removal-enabled ones; accumulative ones belong to C08)
    if m.removal:
        battery(ctx, dn, G, m)


def run(ctx, dn):
    if ctx.shard == 0:
        from .. import passive
        ctx.notes["passive_graphs"] = passive.run(ctx, dn, passive_battery)
    if ctx.tier == "quick":
        _hist.exhaustive(ctx, dn, battery, 2, two_pairs_len=2)
        _hist.second_life(ctx, dn, battery, 6)
        _hist.long_second_life(ctx, dn, battery)
        if ctx.shard % 2 == 0:
            _hist.bulk_load(ctx, dn, battery)
        _hist.around_zero(ctx, dn, battery, 2)
        _hist.stress(ctx, dn, battery, 300, every=100, base=2 ** 60)
        _hist.long_timelines(ctx, dn, battery, 4)
        _hist.random_histories(ctx, dn, battery, until=3, clears=True)
        _hist.stress(ctx, dn, battery, 1500, every=100)
    else:
        # every history of length <= 4 over one pair (2 x 2 625 640 histories over the 16 shards), then two pairs
        _hist.exhaustive(ctx, dn, battery, 4, two_pairs_len=3)
        _hist.second_life(ctx, dn, battery, 60)
        for _ in range(4):
            _hist.long_second_life(ctx, dn, battery)
        _hist.around_zero(ctx, dn, battery, 3)
        _hist.bulk_load(ctx, dn, battery)
        _hist.stress(ctx, dn, battery, 2000, every=200, base=2 ** 60)
        _hist.long_timelines(ctx, dn, battery, 40)
        _hist.random_histories(ctx, dn, battery, until=25, clears=True)
        for _ in range(3):
            _hist.stress(ctx, dn, battery, 6000, every=200)
