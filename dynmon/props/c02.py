"""C02 - every snapshot and flattened query projects the one presence relation."""
from .. import audit, gen
from ..model import Model
from . import _hist

LEVEL = "exploration"
SHARDS = {"quick": 8, "thorough": 16}
BUDGET = {"quick": 22, "thorough": 240}
RULE = ("states reached by EX1/EX2 (exhaustive small universes), RND (random histories: 2-5 nodes of several id "
        "families, self-loops, reciprocal and 'backward' directed pairs, isolated attributed nodes, bulk helpers) "
        "and STRESS histories on both classes and both removal modes; at each audited state every query entry "
        "point (method and dn. form: interactions/in_/out_ with 4 nbunch forms, neighbors/successors/"
        "predecessors + _iter, degree/in_/out_ in dict, nbunch and single-node form, nodes, nodes(data), "
        "has_node, number_of_nodes, order, number_of_interactions in 4 argument forms, size, "
        "get_node_snapshots, all_neighbors, non_neighbors, non_interactions, density, degree_histogram, "
        "is_empty) is compared, for t=None and every t in [min-1,max+1] plus two far instants, with what "
        "networkx answers on the static graph S_t built from the model. distinct = distinct (canonical model "
        "state, last op kind).")
MIN = {"quick": {"interactions(nbunch,t)": 50000, "degree(t)": 10000, "dn.non_interactions(G,t)": 5000,
                 "get_node_snapshots(n)": 2000, "in_interactions(nbunch,t)": 10000},
       "thorough": {"interactions(nbunch,t)": 1000000, "degree(t)": 200000, "dn.non_interactions(G,t)": 100000,
                    "get_node_snapshots(n)": 40000, "in_interactions(nbunch,t)": 200000}}
REQUIRED_CELLS = {t: ("mode:accumulative", "mode:removal", "state:self-loop", "state:reciprocal",
                      "state:backward-edge", "state:isolated-node") for t in ("quick", "thorough")}


def battery(ctx, dn, G, m):
    S = m.static(None)
    if any(S.has_edge(n, n) for n in S):
        ctx.cell("state:self-loop")
    if m.directed:
        order = {n: i for i, n in enumerate(m.nodes)}
        if any(S.has_edge(v, u) for u, v in S.edges() if u != v):
            ctx.cell("state:reciprocal")
        if any(order[v] < order[u] for u, v in S.edges()):
            ctx.cell("state:backward-edge")
    if any(d == 0 for n, d in S.degree()):
        ctx.cell("state:isolated-node")
    ctx.cell("mode:removal" if m.removal else "mode:accumulative")
    audit.audit_queries(ctx, dn, G, m)


def accumulative(ctx, dn, until):
    while ctx.time_left() > until:
        directed = ctx.rng.random() < 0.5
        prog, fam = gen.random_program(ctx.rng, lambda: Model(directed, True), directed=directed, bulk=False)
        _hist._case(ctx, "RND-ACC", directed, prog, removal=False, families=fam)
        _hist.run_program(ctx, dn, prog, directed, battery, removal=False, every=3)


def run(ctx, dn):
    if ctx.shard == 0:
        # PASSIVE: every graph the repository's own tests build is audited with the query battery
        from .. import passive
        ctx.notes["passive_graphs"] = passive.run(ctx, dn, battery)
    if ctx.tier == "quick":
        _hist.exhaustive(ctx, dn, battery, 1, two_pairs_len=2, tmax=3, spans=(None, 2))
        _hist.second_life(ctx, dn, battery, 2)
        _hist.long_timelines(ctx, dn, battery, 2)
        _hist.random_histories(ctx, dn, battery, until=ctx.budget_s * 0.3, every=3, clears=True)
        accumulative(ctx, dn, until=3)
        _hist.stress(ctx, dn, battery, 400, every=200)
    else:
        _hist.exhaustive(ctx, dn, battery, 2, two_pairs_len=2)
        _hist.second_life(ctx, dn, battery, 20)
        _hist.long_timelines(ctx, dn, battery, 20)
        _hist.random_histories(ctx, dn, battery, until=ctx.budget_s * 0.3, every=2, clears=True)
        accumulative(ctx, dn, until=15)
        _hist.stress(ctx, dn, battery, 3000, every=300)
