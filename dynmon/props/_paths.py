"""Shared inputs for the path checks (C12, C13, C15): random and exhaustive small temporal graphs."""
import itertools

from .. import driver
from ..model import Model


def graph_from_presence(dn, directed, presence, ids=None):
    """build (G, m) from {(u, v): iterable of instants} using interval adds (runs)"""
    from ..model import runs
    G = driver.new_graph(dn, directed, True)
    m = Model(directed, True)
    for (u, v), inst in presence.items():
        for a, b in runs(set(inst)):
            e = None if a == b else b + 1
            G.add_interaction(u, v, a, e)
            m.apply(u, v, a, e)
    return G, m


def random_temporal_graph(rng, dn, strings=False, max_nodes=5, max_ids=6, p_loop=0.05, gaps=True):
    directed = rng.random() < 0.5
    n = rng.randint(3, max_nodes)
    nodes = ["n%d" % i for i in range(n)] if strings else list(range(n))
    T = rng.randint(2, max_ids)
    times = sorted(rng.sample(range(0, T * 2 if gaps else T), T))
    presence = {}
    npairs = rng.randint(2, min(7, n * (n - 1)))
    for _ in range(npairs):
        u, v = rng.choice(nodes), rng.choice(nodes)
        if u == v and rng.random() > p_loop:
            continue
        if not directed and (v, u) in presence:
            u, v = v, u
        k = rng.randint(1, max(1, T // 2 + 1))
        presence.setdefault((u, v), set()).update(rng.sample(times, min(k, len(times))))
    if not presence:
        presence[(nodes[0], nodes[1])] = {times[0]}
    G, m = graph_from_presence(dn, directed, presence)
    return G, m, nodes, presence


def all_small_graphs(directed, shard, nshards, nodes=(0, 1, 2), instants=(0, 1, 2, 3), limit=None):
    """every temporal graph over 3 nodes whose (<= 3) pairs each have a presence subset of `instants`;
    undirected: pairs {0,1},{1,2},{0,2}; directed: (0,1),(1,2),(2,0) and, second family, (0,1),(1,0),(1,2)"""
    fams = [((0, 1), (1, 2), (0, 2))] if not directed else [((0, 1), (1, 2), (2, 0)), ((0, 1), (1, 0), (1, 2))]
    subsets = []
    for r in range(len(instants) + 1):
        subsets += list(itertools.combinations(instants, r))
    i = 0
    for fam in fams:
        for combo in itertools.product(subsets, repeat=3):
            i += 1
            if i % nshards != shard:
                continue
            pres = {p: set(s) for p, s in zip(fam, combo) if s}
            if not pres:
                continue
            yield pres
