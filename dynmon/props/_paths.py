"""Shared inputs for the path checks (C12, C13, C15): random and exhaustive small temporal graphs."""
import itertools

from .. import driver
from ..model import Model


def graph_from_presence(dn, directed, presence, ids=None, rng=None):
    """build (G, m) from {(u, v): iterable of instants}.  Without rng: one interval add per run.  With rng the
    construction style varies (the presence relation, hence every expected answer, is the same):
      runs        one add per run, pair after pair
      bulk-head   the first runs of all pairs that start at the same instant are loaded by ONE
                  add_interactions_from call with the shortest of their lengths, then each is prolonged to its
                  full length by an adjacent or an overlapping re-add; later runs follow in time order
      chrono      one add per run, all runs of all pairs in order of their start (pairs interleaved)
      instants    instant after instant, every pair present at that instant added by one bulk call without e"""
    from ..model import runs
    G = driver.new_graph(dn, directed, True)
    m = Model(directed, True)
    style = "runs" if rng is None else rng.choice(("runs", "runs", "bulk-head", "bulk-head", "chrono", "instants"))

    def add(u, v, a, b):
        e = None if a == b else b + 1
        G.add_interaction(u, v, a, e)
        m.apply(u, v, a, e)

    allruns = {k: runs(set(inst)) for k, inst in presence.items()}
    if style == "runs":
        for (u, v), rr in allruns.items():
            for a, b in rr:
                add(u, v, a, b)
    elif style == "chrono":
        seq = sorted(((a, rng.random(), b, k) for k, rr in allruns.items() for (a, b) in rr),
                     key=lambda x: (x[0], x[1]))
        for a, _, b, (u, v) in seq:
            add(u, v, a, b)
    elif style == "instants":
        inst = sorted(set(t for s_ in presence.values() for t in s_))
        for t in inst:
            pairs = [k for k, s_ in presence.items() if t in s_]
            rng.shuffle(pairs)
            G.add_interactions_from(pairs if rng.random() < 0.5 else iter(pairs), t)
            for (u, v) in pairs:
                m.apply(u, v, t, None)
    else:
        heads = {}
        for k, rr in allruns.items():
            if rr:
                heads.setdefault(rr[0][0], []).append(k)
        rest = []
        for a, ks in sorted(heads.items(), key=lambda x: x[0]):
            L = min(allruns[k][0][1] for k in ks)             # common part [a, L]
            e = None if L == a else L + 1
            G.add_interactions_from(list(ks), a, e)
            for (u, v) in ks:
                m.apply(u, v, a, e)
            for k in ks:
                b = allruns[k][0][1]
                if b > L:
                    # prolong: adjacent (starts right after the common part) or overlapping (starts inside it)
                    s0 = L + 1 if rng.random() < 0.5 else rng.randint(a, L)
                    add(k[0], k[1], s0, b)
                rest += [(r[0], rng.random(), r[1], k) for r in allruns[k][1:]]
        for a, _, b, (u, v) in sorted(rest, key=lambda x: (x[0], x[1])):
            add(u, v, a, b)
    want = {m.key(u, v): set(s_) for (u, v), s_ in presence.items() if s_}
    got = {k: set(s_) for k, s_ in m.P.items() if s_}
    if want != got:
        raise AssertionError("harness: construction style %r does not denote the requested presence" % style)
    return G, m


INT_STYLES = ("plain", "plain", "plain", "suffix", "negative", "numpy")
STR_STYLES = ("plain", "plain", "suffix", "digits", "hash", "odd")


def node_ids(rng, n, strings):
    """id styles: plain; ids whose text is a suffix of another id's text (1/11/21, a/ba/ca); negative ints;
    digit-only strings (what a reader yields without nodetype)"""
    style = rng.choice(STR_STYLES if strings else INT_STYLES)
    if strings:
        pool = {"plain": ["n%d" % i for i in range(n)],
                "suffix": ["a", "ba", "ca", "b", "ab", "cab", "c", "bc", "abc", "d"][:n],
                "digits": ["1", "30", "-3", "7", "07", "11", "2", "21", "100", "5"][:n],
                # '#' inside an id, with the text before it being another node
                "hash": ["doc", "doc#2", "a#b", "a", "b", "#", "x#", "c", "doc#", "d"][:n],
                # legal '_'-free strings with line feeds, blanks, tabs
                "odd": ["first\nsecond", "second", "x\n", "", " a", "a", "tab\tid", "b", "c", "d"][:n]}[style]
    else:
        pool = {"plain": list(range(n)),
                "suffix": [1, 11, 21, 2, 12, 22, 3, 13, 111, 4][:n],
                "negative": [-1, -2, 0, 1, -11, 2, -3, 3, 4, 5][:n],
                "numpy": None}[style]
        if style == "numpy":
            import numpy as np
            pool = [np.int64(i) for i in range(n)]      # integer ids that are not python ints
    return style, pool


def time_base(rng):
    """0 mostly; ids crossing a digit-count boundary (9->10, 99->100); nanosecond epochs beyond 2**53"""
    return rng.choice((0, 0, 0, 0, 7, 96, 2 ** 60, 2 ** 63 - 2, -3, -3))


def random_temporal_graph(rng, dn, strings=False, max_nodes=5, max_ids=6, p_loop=0.05, gaps=True):
    directed = rng.random() < 0.5
    if rng.random() < 0.08:
        max_nodes, max_ids = max_nodes + 4, max_ids + 3      # a minority of larger, sparser graphs
    n = rng.randint(3, max_nodes)
    style, nodes = node_ids(rng, n, strings)
    n = len(nodes)
    T = rng.randint(2, max_ids)
    base = time_base(rng)
    times = sorted(base + x for x in rng.sample(range(0, T * 2 if gaps else T), T))
    presence = {}
    npairs = rng.randint(2, min(7, n * (n - 1)))
    for _ in range(npairs):
        u, v = rng.choice(nodes), rng.choice(nodes)
        if u == v and rng.random() > p_loop:
            continue
        if not directed and (v, u) in presence:
            u, v = v, u
        k = rng.randint(1, max(1, T // 2 + 1))
        presence.setdefault((u, v), set()).update(rng.sample(times, min(k, len(times))))
    if not presence:
        presence[(nodes[0], nodes[1])] = {times[0]}
    G, m = graph_from_presence(dn, directed, presence, rng=rng)
    return G, m, nodes, presence


def all_small_graphs(directed, shard, nshards, nodes=(0, 1, 2), instants=(0, 1, 2, 3), limit=None):
    """every temporal graph over 3 nodes whose (<= 3) pairs each have a presence subset of `instants`;
    undirected: pairs {0,1},{1,2},{0,2}; directed: (0,1),(1,2),(2,0) and, second family, (0,1),(1,0),(1,2)"""
    fams = [((0, 1), (1, 2), (0, 2))] if not directed else [((0, 1), (1, 2), (2, 0)), ((0, 1), (1, 0), (1, 2))]
    subsets = []
    for r in range(len(instants) + 1):
        subsets += list(itertools.combinations(instants, r))
    i = 0
    for fam in fams:
        for combo in itertools.product(subsets, repeat=3):
            i += 1
            if i % nshards != shard:
                continue
            pres = {p: set(s) for p, s in zip(fam, combo) if s}
            if not pres:
                continue
            yield pres


def motif_graph(rng, dn, strings=False):
    """closed walk back to the source, then a snapshot at which the source is idle (it exists only because
    of an unrelated pair), then a departure of the source; plus a few random extra interactions"""
    directed = rng.random() < 0.5
    style, ids = node_ids(rng, 7, strings)
    u, x, y, z, p, q, w = ids[:7]
    t0 = time_base(rng) + rng.randint(0, 3)
    L = rng.choice((3, 3, 4))
    cyc = [u, x, y, u] if L == 3 else [u, x, y, w, u]
    presence = {}
    t = t0
    for a, b in zip(cyc[:-1], cyc[1:]):
        presence.setdefault((a, b), set()).add(t)
        t += 1
    presence.setdefault((p, q), set()).add(t)       # the idle snapshot
    if rng.random() < 0.5:
        presence[(p, q)].add(t + 1)
        t += 1
    t += 1
    presence.setdefault((u, z), set()).add(t)       # late departure of the source
    for _ in range(rng.randint(0, 3)):
        a, b = rng.sample(ids[:7], 2)
        if not directed and (b, a) in presence:
            a, b = b, a
        presence.setdefault((a, b), set()).add(t0 + rng.randint(0, t - t0))
    if not directed:
        # merge both orientations of an undirected pair under one key
        merged = {}
        for (a, b), sset in presence.items():
            k = (b, a) if (b, a) in merged else (a, b)
            merged.setdefault(k, set()).update(sset)
        presence = merged
    G, m = graph_from_presence(dn, directed, presence, rng=rng)
    return G, m, list(m.nodes), presence


def refill_after_clear(rng, dn, G, m):
    """second life: the graph is emptied and refilled (unobserved) with as many snapshot ids as before, at other
    times; returns the new model"""
    old_ids = m.ids()
    directed = m.directed
    nodes = list(m.nodes)
    G.clear() if rng.random() < 0.6 else G.clear_edges()
    k = len(old_ids)
    start = old_ids[0] + rng.choice((0, 1, 2))
    new_times = sorted(rng.sample(range(start, start + 2 * k + 1), k))
    if new_times == old_ids:
        new_times[-1] += 1
    from ..model import Model
    m2 = Model(directed, True)
    for n_ in (nodes if len(G.nodes()) else []):
        m2.nodes[n_] = {}
    # a chain over the nodes visiting every new time at least once, so that the id count is exactly k
    i = 0
    for t in new_times:
        a, b = nodes[i % len(nodes)], nodes[(i + 1) % len(nodes)]
        if a == b:
            b = nodes[(i + 2) % len(nodes)]
        G.add_interaction(a, b, t)
        m2.apply(a, b, t, None)
        i += 1
        if rng.random() < 0.4:
            c = nodes[(i + 1) % len(nodes)]
            if c != b:
                G.add_interaction(b, c, t)
                m2.apply(b, c, t, None)
    return m2


def long_pair_graph(rng, dn, strings=False):
    """one pair with 9-12 separate runs (timelines long enough for any long-list code path), a few other
    sparse pairs hanging off its end points.  Directed only: on an undirected graph the library enumerates all
    back-and-forth walks over such a pair before filtering them (exponential time, not a correctness matter)"""
    directed = True
    style, ids = node_ids(rng, 4, strings)
    a, b, c, d = ids[:4]
    base = time_base(rng)
    nruns = rng.randint(9, 12)
    presence = {(a, b): set()}
    t = base
    starts = []
    for _ in range(nruns):
        ln = rng.choice((1, 1, 2))
        presence[(a, b)].update(range(t, t + ln))
        starts.append(t)
        t += ln + rng.randint(1, 2)
    for (x, y) in ((b, c), (c, d), (c, a)):
        k = rng.randint(1, 2)
        presence[(x, y)] = set(rng.sample(range(base, t), k))
    G, m = graph_from_presence(dn, directed, presence, rng=rng)
    return G, m, list(m.nodes), presence


def call_with_defaults(rng, fn, fixed, optional, defaults):
    """fn(*fixed, <optional arguments>) where an optional argument whose value IS its documented default is left
    out half of the time and the others are passed by keyword or, when nothing before them was left out, by
    position (the documented names and defaults are part of the interface)"""
    names = list(defaults)
    vals = dict(zip(names, optional))
    keep = [n for n in names if not (vals[n] is defaults[n] or (vals[n] == defaults[n] and
                                                                type(vals[n]) is type(defaults[n])))
            or rng.random() < 0.5]
    pos, kw = [], {}
    positional_ok = rng.random() < 0.5
    for i, n in enumerate(names):
        if n not in keep:
            positional_ok = False
            continue
        if positional_ok:
            pos.append(vals[n])
        else:
            kw[n] = vals[n]
    return fn(*fixed, *pos, **kw)


TRP_DEFAULTS = dict(v=None, start=None, end=None, sample=1)
ATRP_DEFAULTS = dict(start=None, end=None, sample=1, min_t=None)
DAG_DEFAULTS = dict(v=None, start=None, end=None)


def trp(al, rng, G, u, v=None, start=None, end=None, sample=1):
    return call_with_defaults(rng, al.time_respecting_paths, (G, u), (v, start, end, sample), TRP_DEFAULTS)


def atrp(al, rng, G, start=None, end=None, sample=1, min_t=None):
    return call_with_defaults(rng, al.all_time_respecting_paths, (G,), (start, end, sample, min_t), ATRP_DEFAULTS)


def tdag(al, rng, G, u, v=None, start=None, end=None):
    return call_with_defaults(rng, al.temporal_dag, (G, u), (v, start, end), DAG_DEFAULTS)

