"""C13 - no time-respecting path is missed (differential check against a brute-force enumerator)."""
from .. import pathsref
from ..guard import raised_in_library
from . import _paths

LEVEL = "exploration"
SHARDS = {"quick": 8, "thorough": 16}
BUDGET = {"quick": 25, "thorough": 300}
EXHAUSTIVE = {"quick": False, "thorough": True}
RULE = ("EX = every temporal graph over 3 nodes whose 3 pairs (undirected triangle; directed 3-cycle; directed "
        "reciprocal pair + tail) each have any presence subset of {0,1,2,3} (quick: a seeded sample of 1/8 of them; "
        "thorough: all 2 x 4096 + 4096) x every (u, v in nodes+{None}, start, end) with start<=end over the ids and "
        "defaults, and all_time_respecting_paths for every min_t; RND = random graphs up to 6 nodes / 7 ids with "
        "gaps, int and string ids. Oracle: with sample=1 the set of returned paths (all keys flattened) equals the "
        "set produced by an independent brute-force DFS written from the statement of C12; when u has no interaction "
        "at an explicit start the result is empty; sample<1 gives a subset; all_time_respecting_paths(min_t=m) == "
        "{(u,w): time_respecting_paths(G,u,None,s,e)[(u,w)] for u present at m}. Queries whose enumeration exceeds "
        "20000 paths are skipped and counted. distinct = distinct (graph, query); non-trivial = the oracle set is "
        "non-empty.")
REQUIRED_CELLS = {t: ("motif:closed-walk+idle+departure", "second-life", "long-timeline") for t in ("quick", "thorough")}
MIN = {"quick": {"paths==bruteforce": 20000, "empty-when-u-absent-at-start": 2000, "all_trp==per-source": 500,
                 "sample<1:subset": 500},
       "thorough": {"paths==bruteforce": 400000, "empty-when-u-absent-at-start": 40000, "all_trp==per-source": 10000,
                    "sample<1:subset": 10000}}


def flat(res):
    if not res:
        return set()
    out = set()
    for k, pl in res.items():
        for p in pl:
            out.add(tuple(p))
    return out


def check_query(ctx, al, G, m, u, v, start, end):
    q = dict(u=u, v=v, start=start, end=end)
    ctx.case["query"] = q
    ids = m.ids()
    try:
        res = _paths.trp(al, ctx.rng, G, u, v, start, end, 1)
    except Exception as ex:
        if raised_in_library(ex):
            ctx.violation("raised", dict(q, exception=repr(ex)))
            return
        raise
    present_at_start = bool(pathsref.nbrs(m, u, start)) if start is not None else None
    if not m.directed and start is not None:
        present_at_start = any(m.present(k, start) and u in m.orient[k] for k in m.P)
    if m.directed and start is not None:
        present_at_start = any(m.present(k, start) and u in k for k in m.P)
    if start is not None and not present_at_start:
        ctx.expect("empty-when-u-absent-at-start", len(flat(res)), 0, q)
        return
    if start is None:
        first = ids[0]
        if not any(m.present(k, first) and u in m.orient[k] for k in m.P):
            ctx.skip("start=None and u absent at the first id: completeness not claimed (DESIGN 4.8)")
            return
    try:
        exp = pathsref.brute_paths(m, u, v, start, end)
    except pathsref.TooMany:
        ctx.skip("more than 20000 paths")
        return
    got = flat(res)
    ctx.count("paths==bruteforce")
    if got != exp:
        missing, extra = exp - got, got - exp
        if not extra and all(p[0][0] == p[0][1] for p in missing):
            # known finding: the only deviation is the absence of paths whose FIRST hop is a self-loop of the
            # source (some of them are returned by accident of the occurrence naming, hence a predicate and
            # not an exact deviant value); any other missing or extra path is a violation
            ctx.finding("paths==bruteforce", "known:source-selfloop-first-hop-missing",
                        dict(q, missing=sorted(missing)[:4]))
        else:
            ctx.finding("paths==bruteforce", "unclassified:paths==bruteforce",
                        dict(q, missing=sorted(missing)[:6], extra=sorted(extra)[:6]))
    if exp:
        ctx.nontrivial(m.state_key(), repr(q))
    return exp


def graph_queries(ctx, dn, G, m, nodes, exhaustive):
    # one graph with all its queries, under a wall-clock alarm (a library call that does not return within the
    # deadline is abandoned and counted as skipped, never judged)
    from ..core import case_deadline
    with case_deadline(ctx, 40):
        _graph_queries_body(ctx, dn, G, m, nodes, exhaustive)


def _graph_queries_body(ctx, dn, G, m, nodes, exhaustive):
    import dynetx.algorithms as al
    rng = ctx.rng
    ctx.cases += 1
    ids = m.ids()
    windows = [(None, None)] + [(a, b) for i, a in enumerate(ids) for b in ids[i:]]
    if not exhaustive:
        windows = [(None, None)] + rng.sample(windows[1:], min(3, len(windows) - 1))
        if len(ids) > 1 and ids[0] + 1 < ids[1]:
            windows.append((ids[0] + 1, ids[-1]))     # explicit start in a gap: u absent at start
        if ids[0] < 0 <= ids[-1]:
            windows.append((0, ids[-1]))               # an explicit start that happens to be falsy
    for u in nodes:
        for v in [None] + list(nodes):
            if not exhaustive and v is not None and rng.random() < 0.5:
                continue
            for (s, e) in windows:
                check_query(ctx, al, G, m, u, v, s, e)
    # sample < 1 is a subset of the full answer
    u = rng.choice(nodes)
    try:
        full = flat(_paths.trp(al, ctx.rng, G, u, None, None, None, 1))
        part = flat(al.time_respecting_paths(G, u, None, None, None, 0.5))
        ctx.expect("sample<1:subset", part <= full, True, dict(u=u, extra=sorted(part - full)[:3]))
    except Exception as ex:
        if raised_in_library(ex):
            ctx.violation("raised", dict(fn="time_respecting_paths(sample=0.5)", u=u, exception=repr(ex)))
        else:
            raise
    # all_time_respecting_paths aggregates the per-source results
    for mt in ([None] + ids) if exhaustive else [rng.choice([None] + ids)]:
        s, e = rng.choice(windows)
        q = dict(fn="all_time_respecting_paths", start=s, end=e, min_t=mt)
        ctx.case["query"] = q
        try:
            res = _paths.atrp(al, ctx.rng, G, s, e, 1, mt)
            exp = {}
            srcs = list(m.nodes) if mt is None else [n for n in m.nodes if pathsref_has(m, n, mt)]
            for x in srcs:
                r = _paths.trp(al, ctx.rng, G, x, None, s, e, 1)
                if r:
                    for k, pl in r.items():
                        exp[(x, k[-1])] = pl
        except Exception as ex:
            if raised_in_library(ex):
                ctx.violation("raised", dict(q, exception=repr(ex)))
                continue
            raise
        ctx.expect("all_trp==per-source", {k: sorted(map(tuple, v)) for k, v in res.items()},
                   {k: sorted(map(tuple, v)) for k, v in exp.items()}, q)


def pathsref_has(m, n, t):
    return any(m.present(k, t) and n in m.orient[k] for k in m.P)


def run(ctx, dn):
    rng = ctx.rng
    quick = ctx.tier == "quick"
    done = 0
    complete = True
    for directed in (False, True):
        for i, pres in enumerate(_paths.all_small_graphs(directed, ctx.shard, ctx.nshards)):
            if quick and i % 8 != (ctx.seed % 8):
                continue
            if ctx.time_left() < (6 if quick else 40):
                complete = False
                break
            G, m = _paths.graph_from_presence(dn, directed, pres)
            ctx.case = dict(workload="EX-GRAPHS", directed=directed, presence=pres)
            graph_queries(ctx, dn, G, m, [0, 1, 2], True)
            done += 1
    ctx.notes["ex_graphs"] = done
    ctx.notes["ex_complete_shards"] = 1 if complete else 0
    ctx.sample(ctx.case)
    k = 0
    while ctx.time_left() > 1:
        strings = rng.random() < 0.4
        if k % 6 == 3:
            G, m, nodes, pres = _paths.motif_graph(rng, dn, strings=strings)
            ctx.cell("motif:closed-walk+idle+departure")
            ctx.case = dict(workload="MOTIF", directed=m.directed, presence=pres)
        else:
            G, m, nodes, pres = _paths.random_temporal_graph(rng, dn, strings=strings, max_nodes=6, max_ids=7)
            ctx.case = dict(workload="RND-GRAPHS", directed=m.directed, presence=pres)
        graph_queries(ctx, dn, G, m, nodes, False)
        if k % 9 == 4:
            G, m, nodes, pres = _paths.long_pair_graph(rng, dn, strings=strings)
            ctx.case = dict(workload="LONG-PAIR", directed=m.directed, presence=pres)
            ctx.cell("long-timeline")
            graph_queries(ctx, dn, G, m, nodes, False)
        if k % 5 == 1:
            m2 = _paths.refill_after_clear(rng, dn, G, m)
            ctx.case = dict(workload="SECOND-LIFE", directed=m.directed, first_life=pres,
                            presence={repr(kk): sorted(v) for kk, v in m2.P.items()})
            ctx.cell("second-life")
            graph_queries(ctx, dn, G, m2, list(m2.nodes), False)
        if k < 3:
            ctx.sample(ctx.case)
        k += 1
