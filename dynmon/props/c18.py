"""C18 - readers skip noise rows; timestamp compaction is an order-preserving bijection."""
import io
import os
import shutil

from .. import audit, iohelp, observe
from ..guard import guarded, raised_in_library
from ..model import Model

LEVEL = "exploration"
SHARDS = {"quick": 8, "thorough": 16}
BUDGET = {"quick": 20, "thorough": 200}
RULE = ("line sequences generated from a row grammar: valid rows (snapshots: 3 or 4 columns; interactions: 4 "
        "columns '+'/'-'), blank, whitespace-only, comment-only, indented comments, trailing comments, short rows, "
        "rows with extra columns, leading/trailing blanks, with and without newline terminators; delimiters "
        "default/','/';'/tab/'|'; comment marker '#' or '%'. Oracles: (metamorphic) parse(noisy) has the same "
        "observable snapshot as parse(clean rows only); (model) presence/timelines/ids equal the rows interpreted by "
        "the reference model; an unconvertible node or timestamp raises TypeError; compact_timeslot on random int "
        "sets (negative, huge, shuffled, duplicated input) is a strictly increasing bijection onto 0..k-1; "
        "read_snapshots/read_interactions(keys=True) on clean 3-/4-column files equals parsing the same rows with "
        "every timestamp replaced by its rank. EX = every sequence of <= 3 lines over an 11-line alphabet (thorough). "
        "distinct = distinct (line sequence, reader, delimiter).")
MIN = {"quick": {"noisy==clean": 4000, "model:has_interaction(u,v,t)": 20000, "typeerror": 1000,
                 "compact_timeslot": 1500, "keys:has_interaction(u,v,t)": 5000},
       "thorough": {"noisy==clean": 200000, "model:has_interaction(u,v,t)": 1000000, "typeerror": 40000,
                    "compact_timeslot": 100000, "keys:has_interaction(u,v,t)": 200000}}
REQUIRED_CELLS = {t: ("noise:blank", "noise:whitespace", "noise:comment", "noise:indented-comment",
                      "noise:trailing-comment", "noise:short-row", "noise:extra-columns", "noise:padding",
                      "reader:snapshots", "reader:interactions", "keys:snapshots3", "keys:snapshots4",
                      "keys:interactions", "conv:nodetype=str", "conv:nodetype=int", "conv:timestamps x60",
                      "typeerror:lookup", "typeerror:zerodiv", "compact:beyond-2**53", "keys:beyond-2**53",
                      "ids:#-with-marker-%", "keys:zero-padded-duplicates", "marker:*", "marker:$", "marker:?",
                      "marker://", "marker:^")
                  for t in ("quick", "thorough")}


def valid_rows(rng, reader, m):
    """chronologically acceptable rows (as field lists) for `reader`; advances model m"""
    rows = []
    nodes = [1, 2, 3]
    if reader == "snapshots":
        for _ in range(rng.randint(1, 6)):
            u, v = rng.choice(nodes), rng.choice(nodes)
            k = m.key(u, v)
            base = max(m.P[k]) + 1 if k in m.P and m.P[k] else rng.randint(-2, 4)
            t = base + rng.randint(0, 2)
            e = t + rng.randint(1, 3) if rng.random() < 0.4 else None
            if m.verdict(u, v, t, e):
                continue
            m.apply(u, v, t, e)
            rows.append([u, v, t] if e is None else [u, v, t, e])
    else:
        # closed runs per pair, merged chronologically
        ev = []
        pairs = []
        for _ in range(rng.randint(1, 3)):
            u, v = rng.choice(nodes), rng.choice(nodes)
            if m.key(u, v) in [m.key(*p) for p in pairs]:
                continue
            pairs.append((u, v))
            t = rng.randint(-2, 3)
            for _r in range(rng.randint(1, 2)):
                ln = rng.randint(1, 3)
                ev.append((t, 0, [u, v, '+', t]))
                ev.append((t + ln, 1, [u, v, '-', t + ln]))
                m.apply(u, v, t, t + ln)
                t = t + ln + rng.randint(1, 2)
        ev.sort(key=lambda x: (x[0], x[1]))
        rows = [r for _, _, r in ev]
    return rows


def render(fields, delim):
    return (delim or " ").join(str(x) for x in fields)


def noisy(ctx, rng, rows, reader, delim, marker):
    """interleave noise and decorate valid rows; returns (noisy lines, clean lines)"""
    d = delim or " "
    out, clean = [], []

    def noise():
        kind = rng.choice(("blank", "whitespace", "comment", "indented-comment", "short-row", "extra-columns",
                           "comment-with-marker-inside"))
        ctx.cell("noise:" + kind)
        if kind == "blank":
            return ""
        if kind == "whitespace":
            return rng.choice(("   ", "\t", " \t "))
        if kind == "comment":
            return marker + " a comment 1 2 3"
        if kind == "comment-with-marker-inside":
            # everything after the FIRST marker is comment, also further markers and things that look like rows
            return marker + marker + " section" + d + "2" + d + "3" + d + "4 " + marker + " generated"
        if kind == "indented-comment":
            return "   " + marker + "1" + d + "2" + d + "3"
        if kind == "short-row":
            return rng.choice(("7", "7" + d + "8", "7" + d + "8" + d + "+" if reader == "interactions" else "7" + d + "8"))
        # a row that the reader must ignore because of its column count
        if reader == "interactions":
            return d.join(("7", "8", "+", "1", "9"))     # 5 columns: != 4
        return None
    for r in rows:
        while rng.random() < 0.45:
            n = noise()
            if n is not None:
                out.append(n)
        line = render(r, delim)
        clean.append(line)
        deco = line
        if reader == "snapshots" and len(r) == 4 and rng.random() < 0.3:
            deco = deco + d + "99" + d + "zz"        # columns beyond the 4th are ignored
            ctx.cell("noise:extra-columns")
        if rng.random() < 0.3:
            deco = deco + " " + marker + " trailing" + d + "1"
            if rng.random() < 0.4:
                deco = deco + " " + marker + " again" + d + "5" + d + "6" + d + "7"
            ctx.cell("noise:trailing-comment")
        if rng.random() < 0.3:
            deco = "  " + deco + "  "
            ctx.cell("noise:padding")
        out.append(deco)
    while rng.random() < 0.4:
        n = noise()
        if n is not None:
            out.append(n)
    if rng.random() < 0.5:
        out = [x + "\n" for x in out]
    return out, clean


def parse(dn, reader, lines, delim, marker, via_file, directed, **extra):
    kw = dict(directed=directed, nodetype=int, timestamptype=int, comments=marker)
    kw.update(extra)
    if delim is not None:
        kw["delimiter"] = delim
    if via_file:
        text = "".join(x if x.endswith("\n") else x + "\n" for x in lines)
        f = io.BytesIO(text.encode("utf-8"))
        return (dn.read_snapshots if reader == "snapshots" else dn.read_interactions)(f, **kw)
    return (dn.parse_snapshots if reader == "snapshots" else dn.parse_interactions)(lines, **kw)


def noise_case(ctx, dn, lines_override=None):
    rng = ctx.rng
    reader = rng.choice(("snapshots", "interactions"))
    directed = rng.random() < 0.5
    delim = rng.choice(iohelp.DELIMS)
    marker = rng.choice(("#", "#", "%", "*", "$", "?", "//", "^"))
    ctx.cell("marker:" + marker)
    m = Model(directed, True)
    rows = valid_rows(rng, reader, m)
    if not rows:
        return
    # the converters vary from one parse to the next in the same process (int / str ids; plain or scaled
    # integer timestamps): a conversion is a function of the field AND the requested type
    nconv = rng.choice((int, int, str))
    pref = ""
    if marker == "%" and nconv is str and rng.random() < 0.6:
        # '#' is an ordinary character when the comment marker is '%': ids may start with it
        pref = "#"
        rows = [[pref + str(r[0]), pref + str(r[1])] + list(r[2:]) for r in rows]
        ctx.cell("ids:#-with-marker-%")
    lines, clean = noisy(ctx, rng, rows, reader, delim, marker)
    via = rng.random() < 0.5
    ctx.cases += 1
    ctx.cell("reader:" + reader)
    ctx.case = dict(workload="NOISE", reader=reader, directed=directed, delimiter=delim, comments=marker,
                    lines=lines, clean=clean, via_file=via)
    scale = rng.choice((1, 1, 60))
    tconv = int if scale == 1 else (lambda x: int(x) * 60)
    ctx.cell("conv:nodetype=%s" % nconv.__name__)
    ctx.cell("conv:timestamps x%d" % scale)
    try:
        A = parse(dn, reader, lines, delim, marker, via, directed, nodetype=nconv, timestamptype=tconv)
        B = parse(dn, reader, clean, delim, marker, False, directed, nodetype=nconv, timestamptype=tconv)
    except Exception as ex:
        if raised_in_library(ex):
            ctx.violation("noisy:raised", dict(exception=repr(ex), lines=lines))
            return
        raise
    ctx.expect("noisy==clean", observe.diff(observe.snapshot(B), observe.snapshot(A)), [], dict(lines=lines))
    h = iohelp.retype(m, conv=(lambda x: pref + str(x)) if pref else nconv)
    if scale != 1:
        # a span t..e-1 read with scaled stamps is t*60 .. e*60-1: rebuild the expectation from the rows
        h = rows_model(rows, reader, directed, nconv, scale)
    guarded(ctx, "model:audit", audit.audit_all, ctx, dn, A, h, "model:", ("C01", "C03", "C04"))
    ctx.nontrivial(tuple(lines), reader, delim)
    if len(ctx.samples) < 4 and rng.random() < 0.02:
        ctx.sample(ctx.case)


def rows_model(rows, reader, directed, nconv, scale):
    """model of the graph described by field rows when ids go through nconv and stamps are multiplied"""
    h = Model(directed, True)
    if reader == "snapshots":
        for r in rows:
            h.apply(nconv(str(r[0])), nconv(str(r[1])), r[2] * scale, r[3] * scale if len(r) == 4 else None)
    else:
        ev = [(nconv(str(r[0])), nconv(str(r[1])), r[2], r[3] * scale) for r in rows]
        P, err = audit.replay_stream(ev, h.key)
        for (u, v, op, t) in ev:
            k = h.key(u, v)
            if k not in h.orient:
                h.orient[k] = (u, v)
                h.nodes.setdefault(u, {})
                h.nodes.setdefault(v, {})
        for k, sset in P.items():
            h.P[k] = sset
            h.first[k] = min(sset)
    return h


class Lookup(dict):
    """a converter that fails with KeyError for unknown fields"""
    def __call__(self, x):
        return self[x]


def typeerror_case(ctx, dn):
    rng = ctx.rng
    reader = rng.choice(("snapshots", "interactions"))
    delim = rng.choice(iohelp.DELIMS)
    d = delim or " "
    bad_node = rng.random() < 0.5
    if reader == "snapshots":
        good = ["1", "2", "3"] + (["5"] if rng.random() < 0.4 else [])
        pos = rng.choice((0, 1)) if bad_node else rng.choice(range(2, len(good)))
    else:
        good = ["1", "2", "+", "3"]
        pos = rng.choice((0, 1)) if bad_node else 3
    fields = list(good)
    fields[pos] = rng.choice(("x", "1.5", "t3", "1e", "--"))
    lines = [d.join(good), d.join(fields)]
    ctx.cases += 1
    # whatever way the conversion fails (ValueError from int, KeyError from a lookup table, ZeroDivisionError,
    # ...) the reader reports TypeError
    how = rng.choice(("int", "int", "lookup", "zerodiv"))
    ctx.cell("typeerror:" + how)
    table = Lookup({str(i): i for i in range(10)})
    bad = (lambda x: int(x) if x.lstrip("-").isdigit() else 1 // 0)
    conv = {"int": int, "lookup": table, "zerodiv": bad}[how]
    extra = dict(nodetype=conv) if bad_node else dict(timestamptype=conv)
    ctx.case = dict(workload="TYPEERROR", reader=reader, delimiter=delim, lines=lines, converter=how)
    got = None
    try:
        parse(dn, reader, lines, delim, "#", rng.random() < 0.5, False, **extra)
    except Exception as ex:
        got = type(ex).__name__
    ctx.expect("typeerror", got, "TypeError", dict(lines=lines))
    ctx.nontrivial(tuple(lines), reader, "typeerror")


def compact_case(ctx, dn):
    rng = ctx.rng
    from dynetx.utils import compact_timeslot
    n = rng.randint(1, 12)
    scale = rng.choice((10, 1000, 10 ** 12, "ns"))
    if scale == "ns":
        # nanosecond epochs beyond 2**53, a few ns apart (indistinguishable as floats), in arbitrary order
        base = 2 ** 60 + rng.randint(0, 10 ** 6)
        vals = [base + rng.randint(0, 40) for _ in range(n)]
        ctx.cell("compact:beyond-2**53")
    else:
        vals = [rng.randint(-scale, scale) for _ in range(n)]
    given = list(vals)
    if rng.random() < 0.3:
        given += rng.sample(vals, 1)          # duplicates in the input
    rng.shuffle(given)
    ctx.cases += 1
    ctx.case = dict(workload="COMPACT", values=given)
    form = rng.choice(("list", "set", "dictkeys"))
    arg = given if form == "list" else set(given) if form == "set" else dict.fromkeys(given).keys()
    if form == "list":
        arg = list(dict.fromkeys(given))      # the readers hand distinct timestamps (dict keys)
    conv = compact_timeslot(arg)
    distinct = sorted(set(vals))
    ok = (isinstance(conv, dict) and set(conv) == set(distinct)
          and sorted(conv.values()) == list(range(len(distinct)))
          and all(conv[a] < conv[b] for a, b in zip(distinct, distinct[1:])))
    ctx.expect("compact_timeslot", ok, True, dict(values=given, mapping=conv))
    ctx.nontrivial(tuple(sorted(set(vals))), "compact")


def keys_case(ctx, dn):
    rng = ctx.rng
    kind = rng.choice(("snapshots3", "snapshots4", "interactions"))
    reader = "interactions" if kind == "interactions" else "snapshots"
    directed = rng.random() < 0.5
    delim = rng.choice(iohelp.DELIMS)
    scale = rng.choice((1, 7, 1000))
    offset = rng.choice((0, 0, 2 ** 60))          # nanosecond-epoch sized stamps, a few units apart
    m = Model(directed, True)
    for _ in range(6):
        rows = valid_rows(rng, reader, m)
        if kind == "snapshots3":
            rows = [r for r in rows if len(r) == 3]
        if kind == "snapshots4" and not any(len(r) == 4 for r in rows):
            rows = []
        if rows:
            break
        m = Model(directed, True)
    if not rows:
        return
    # spread the timestamps so that ranks differ from values (strictly increasing map)
    ts = sorted(set(x for r in rows for x in (r[2:] if reader == "snapshots" else r[3:])))
    spread = {t: t * scale + (3 if scale > 1 else 0) + offset for t in ts}
    if offset:
        ctx.cell("keys:beyond-2**53")
    rows = [[r[0], r[1]] + [spread[x] for x in r[2:]] if reader == "snapshots" else [r[0], r[1], r[2], spread[r[3]]]
            for r in rows]
    allts = sorted(set(x for r in rows for x in (r[2:] if reader == "snapshots" else r[3:])))
    rank = {t: i for i, t in enumerate(allts)}
    ranked = [[r[0], r[1]] + [rank[x] for x in r[2:]] if reader == "snapshots" else [r[0], r[1], r[2], rank[r[3]]]
              for r in rows]
    d = iohelp.tmpdir()
    try:
        path = os.path.join(d, "keys.txt")
        # some stamps are written zero-padded in some rows ("07" and "7" are one timestamp)
        pad = rng.random() < 0.3 and not offset
        if pad:
            ctx.cell("keys:zero-padded-duplicates")

        def rr(r):
            if not pad:
                return render(r, delim)
            f2 = [str(x) for x in r]
            for i in (range(2, len(f2)) if reader == "snapshots" else (3,)):
                if rng.random() < 0.5 and not f2[i].startswith("-"):
                    f2[i] = "0" + f2[i]
            return (delim or " ").join(f2)
        with open(path, "wb") as f:
            f.write(("\n".join(rr(r) for r in rows) + "\n").encode("utf-8"))
        kw = dict(directed=directed, nodetype=int, timestamptype=int, keys=True)
        if delim is not None:
            kw["delimiter"] = delim
        ctx.cases += 1
        ctx.case = dict(workload="KEYS", kind=kind, directed=directed, delimiter=delim,
                        rows=[render(r, delim) for r in rows])
        try:
            # keys=True reads the file twice (once for the ids): everything opened for it is closed again
            with iohelp.recording_opens() as ro:
                A = (dn.read_snapshots if reader == "snapshots" else dn.read_interactions)(path, **kw)
            ctx.expect("keys:files-closed", [repr(f) for f in ro.made if not f.closed], [], dict(opened=len(ro.made)))
            B = parse(dn, reader, [render(r, delim) for r in ranked], delim, "#", False, directed)
        except Exception as ex:
            if raised_in_library(ex):
                ctx.violation("keys:raised", dict(exception=repr(ex), rows=ctx.case["rows"]))
                return
            raise
        ctx.cell("keys:" + kind)
        ctx.expect("keys==ranked-rows", observe.diff(observe.snapshot(B), observe.snapshot(A)), [],
                   dict(rows=ctx.case["rows"]))
        # and against the model of the ranked rows
        h = Model(directed, True)
        for r in ranked:
            if reader == "snapshots":
                h.apply(r[0], r[1], r[2], r[3] if len(r) == 4 else None)
        if reader == "interactions":
            P, err = audit.replay_stream([tuple(r) for r in ranked], h.key)
            for r in ranked:
                k = h.key(r[0], r[1])
                if k not in h.orient:
                    h.orient[k] = (r[0], r[1])
                    h.nodes.setdefault(r[0], {})
                    h.nodes.setdefault(r[1], {})
            for k, s in P.items():
                h.P[k] = s
                h.first[k] = min(s)
        guarded(ctx, "keys:audit", audit.audit_all, ctx, dn, A, iohelp.retype(h), "keys:", ("C01", "C03", "C04"))
        ctx.nontrivial(tuple(ctx.case["rows"]), kind)
    finally:
        shutil.rmtree(d, ignore_errors=True)


def exhaustive_lines(ctx, dn):
    """EX: every sequence of <= 3 lines over an 11-line alphabet, snapshots reader, default delimiter"""
    import itertools
    alpha = ["1 2 0", "1 2 1 3", "2 3 1", "", "   ", "# c", "  # 1 2 3", "1 2", "1 2 5 # t", " 2 3 4 ", "1 2 6 8 9"]
    valid = {0: ("1 2 0",), 1: ("1 2 1 3",), 2: ("2 3 1",), 8: ("1 2 5",), 9: ("2 3 4",), 10: ("1 2 6 8",)}
    n = 0
    for L in (1, 2, 3):
        for i, seq in enumerate(itertools.product(range(len(alpha)), repeat=L)):
            if i % ctx.nshards != ctx.shard:
                continue
            lines = [alpha[j] for j in seq]
            clean = [valid[j][0] for j in seq if j in valid]
            # keep only sequences the reference model accepts (chronological per pair)
            m = Model(False, True)
            okseq = True
            for c in clean:
                f = [int(x) for x in c.split()]
                if m.verdict(f[0], f[1], f[2], f[3] if len(f) > 3 else None):
                    okseq = False
                    break
                m.apply(f[0], f[1], f[2], f[3] if len(f) > 3 else None)
            if not okseq:
                continue
            ctx.cases += 1
            ctx.case = dict(workload="EX-LINES", lines=lines)
            try:
                A = dn.parse_snapshots(lines, nodetype=int, timestamptype=int)
                B = dn.parse_snapshots(clean, nodetype=int, timestamptype=int)
            except Exception as ex:
                if raised_in_library(ex):
                    ctx.violation("noisy:raised", dict(exception=repr(ex), lines=lines))
                    continue
                raise
            ctx.expect("noisy==clean", observe.diff(observe.snapshot(B), observe.snapshot(A)), [], dict(lines=lines))
            guarded(ctx, "model:audit", audit.audit_all, ctx, dn, A, iohelp.retype(m), "model:", ("C01", "C03", "C04"))
            ctx.nontrivial(tuple(lines), "ex")
            n += 1
    ctx.notes["ex_sequences"] = n


def run(ctx, dn):
    if ctx.tier == "thorough":
        exhaustive_lines(ctx, dn)
    n = 0
    while ctx.time_left() > 1:
        noise_case(ctx, dn)
        if n % 3 == 0:
            typeerror_case(ctx, dn)
            compact_case(ctx, dn)
        if n % 2 == 0:
            keys_case(ctx, dn)
        n += 1
