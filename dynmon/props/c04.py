"""C04 - snapshot ids are the inhabited instants; per-snapshot counts are exact."""
from .. import audit
from . import _hist

LEVEL = "exploration"
SHARDS = {"quick": 8, "thorough": 16}
BUDGET = {"quick": 18, "thorough": 180}
RULE = ("same history workloads as C01 (EX1/EX2/RND/STRESS/PASSIVE, interval spans, re-adds, overlaps, several pairs "
        "per instant, reciprocal directed pairs, self-loops); after every accepted call "
        "temporal_snapshots_ids() == sorted union of presence, interactions_per_snapshots() and (t) for every "
        "t in the window == number of pairs present, avg_number_of_nodes() == mean of |V_t|, dn. wrappers "
        "agree. distinct = distinct (canonical model state, last op kind).")
MIN = {"quick": {"temporal_snapshots_ids": 20000, "interactions_per_snapshots(t)": 100000, "avg_number_of_nodes": 10000},
       "thorough": {"temporal_snapshots_ids": 400000, "interactions_per_snapshots(t)": 2000000, "avg_number_of_nodes": 200000}}


def battery(ctx, dn, G, m):
    audit.audit_snapshots(ctx, dn, G, m)


def passive_battery(ctx, dn, G, m):
    # graphs built by the repository's own tests (removal-enabled ones; accumulative ones belong to C08)
    if m.removal:
        battery(ctx, dn, G, m)


def run(ctx, dn):
    if ctx.shard == 0:
        from .. import passive
        ctx.notes["passive_graphs"] = passive.run(ctx, dn, passive_battery)
    if ctx.tier == "quick":
        _hist.exhaustive(ctx, dn, battery, 2, two_pairs_len=2)
        _hist.second_life(ctx, dn, battery, 6)
        _hist.long_second_life(ctx, dn, battery)
        if ctx.shard % 2 == 0:
            _hist.bulk_load(ctx, dn, battery)
        _hist.around_zero(ctx, dn, battery, 2)
        _hist.stress(ctx, dn, battery, 300, every=100, base=2 ** 60)
        _hist.long_timelines(ctx, dn, battery, 4)
        _hist.random_histories(ctx, dn, battery, until=3, clears=True)
        _hist.stress(ctx, dn, battery, 1500, every=100)
    else:
        _hist.exhaustive(ctx, dn, battery, 3, two_pairs_len=3)
        _hist.second_life(ctx, dn, battery, 60)
        for _ in range(4):
            _hist.long_second_life(ctx, dn, battery)
        _hist.around_zero(ctx, dn, battery, 3)
        _hist.bulk_load(ctx, dn, battery)
        _hist.stress(ctx, dn, battery, 2000, every=200, base=2 ** 60)
        _hist.long_timelines(ctx, dn, battery, 40)
        _hist.random_histories(ctx, dn, battery, until=25, clears=True)
        for _ in range(3):
            _hist.stress(ctx, dn, battery, 6000, every=200)
