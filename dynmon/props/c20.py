"""C20 - delta-conformity is bounded, relabelling-invariant, consistent when sliding."""
import math

from ..guard import raised_in_library
from ..model import Model, runs
from . import _paths

LEVEL = "exploration"
SHARDS = {"quick": 8, "thorough": 16}
BUDGET = {"quick": 30, "thorough": 300}
RULE = ("random labelled removal-enabled DynGraphs (3-6 nodes, <= 6 snapshot ids with gaps, interval spans, int or "
        "'_'-free string ids, 1-2 static categorical label attributes with 1-3 values, profile_size <= 2), every "
        "start in and around the ids, delta in 0..4, alphas from {0.5, 1, 2.5}, all five path types. Oracles: "
        "structure alpha('%.2f') -> profile -> node; node set == nodes with an interaction at start; None iff no "
        "snapshot id lies in [start,start+delta]; every score in [-1,1]; invariance (1e-9) under a bijective "
        "renaming of label values and under a bijective renaming of node ids (graph rebuilt with the same history); "
        "with one label shared by all nodes the score is 1 for nodes that reach another node and 0 otherwise; "
        "sliding_delta_conformity lists, for exactly the ids t with t+delta < last id, (t+delta, "
        "delta_conformity(G,t,delta,...)[alpha][profile][n]). distinct = distinct (graph, labels, start, delta, path "
        "type); non-trivial = at least one node has a non-zero score.")
MIN = {"quick": {"structure": 1500, "range[-1,1]": 1500, "inv:label-values": 700, "inv:node-ids": 700,
                 "single-label": 700, "sliding==pointwise": 200, "none-iff-empty-window": 1500},
       "thorough": {"structure": 30000, "range[-1,1]": 30000, "inv:label-values": 15000, "inv:node-ids": 15000,
                    "single-label": 15000, "sliding==pointwise": 4000, "none-iff-empty-window": 30000}}
REQUIRED_CELLS = {t: tuple("path_type:" + p for p in ("shortest", "fastest", "foremost", "shortest_fastest",
                                                     "fastest_shortest")) + ("result:None", "profile_size:2",
                                                                             "ids:str", "ids:int", "alphas:raw-floats",
                                                                             "relabel:mixed-types",
                                                                             "labels:equal-but-distinct-objects")
                  for t in ("quick", "thorough")}
PTYPES = ("shortest", "fastest", "foremost", "shortest_fastest", "fastest_shortest")


def build(dn, presence, labels, rename=None, relabel=None, fresh=False):
    """DynGraph from presence {(u,v): instants} + node labels {node: {attr: value}}"""
    rn = (lambda x: x) if rename is None else (lambda x: rename[x])
    rl = (lambda a, v: v) if relabel is None else (lambda a, v: relabel[a][v])
    if fresh:
        # every node carries its own string object (built at run time), equal in value to its peers'
        base = rl
        rl = lambda a, v: "".join(["label-", str(base(a, v))])
    G = dn.DynGraph()
    for (u, v), inst in presence.items():
        for a, b in runs(set(inst)):
            G.add_interaction(rn(u), rn(v), a, None if a == b else b + 1)
    for n, d in labels.items():
        if rn(n) in G:
            G.add_node(rn(n), **{a: rl(a, v) for a, v in d.items()})
    return G


def close(a, b, tol=1e-9):
    if a is None or b is None:
        return a is b
    if isinstance(a, dict) and isinstance(b, dict):
        return set(a) == set(b) and all(close(a[k], b[k], tol) for k in a)
    if isinstance(a, (list, tuple)) and isinstance(b, (list, tuple)):
        return len(a) == len(b) and all(close(x, y, tol) for x, y in zip(a, b))
    try:
        return math.isclose(a, b, rel_tol=tol, abs_tol=tol)
    except TypeError:
        return a == b


def mapkeys(res, inv):
    """rename the node keys of a result back with `inv`"""
    if res is None:
        return None
    return {a: {p: {inv[n]: s for n, s in d.items()} for p, d in pd.items()} for a, pd in res.items()}


def one(ctx, dn):
    import dynetx.algorithms as al
    rng = ctx.rng
    strings = rng.random() < 0.4
    n = rng.randint(3, 6)
    nodes = ["n%d" % i for i in range(n)] if strings else list(range(n))
    T = rng.randint(2, 6)
    times = sorted(rng.sample(range(0, T + 3), T))
    presence = {}
    for _ in range(rng.randint(2, 8)):
        u, v = rng.sample(nodes, 2)
        if (v, u) in presence:
            u, v = v, u
        k = rng.randint(1, max(1, T // 2 + 1))
        presence.setdefault((u, v), set()).update(rng.sample(times, min(k, len(times))))
    attrs = ["l1", "l2"][:rng.randint(1, 2)]
    nvals = rng.randint(1, 3)
    labels = {x: {a: rng.choice(["a", "b", "c"][:nvals]) for a in attrs} for x in nodes}
    fresh_objects = rng.random() < 0.3
    if fresh_objects:
        ctx.cell("labels:equal-but-distinct-objects")
    psize = rng.randint(1, len(attrs))
    if rng.random() < 0.25:
        # raw float alphas: successive calls whose alphas agree to two decimals but differ
        alphas = [rng.choice((1.0, 1.004, 0.996, 2.5, 2.504, 0.5, 0.496, 0.125, 1.115, 2.375, 0.333))]
        ctx.cell("alphas:raw-floats")
    else:
        alphas = rng.sample([0.5, 1, 2.5], rng.randint(1, 2))
    ptype = rng.choice(PTYPES)
    G = build(dn, presence, labels, fresh=fresh_objects)
    m = Model(False, True)
    for (u, v), inst in presence.items():
        for t in inst:
            m.apply(u, v, t, None)
    ids = m.ids()
    start = rng.choice(ids + [ids[0] - 1, ids[-1] + 1, rng.randint(ids[0], ids[-1])])
    delta = rng.randint(0, 4)
    ctx.cases += 1
    ctx.cell("path_type:" + ptype)
    ctx.cell("ids:" + ("str" if strings else "int"))
    if psize == 2:
        ctx.cell("profile_size:2")
    q = dict(start=start, delta=delta, alphas=alphas, labels=attrs, profile_size=psize, path_type=ptype)
    ctx.case = dict(workload="CONF", presence=presence, node_labels=labels, query=q)

    def call(graph, s=start, lab=attrs):
        kw = dict(profile_size=psize, path_type=ptype)
        # arguments equal to their documented defaults (profile_size=1, path_type="shortest") may be left out
        if psize == 1 and rng.random() < 0.5:
            del kw["profile_size"]
            ctx.cell("default-omitted:profile_size")
        if ptype == "shortest" and rng.random() < 0.5:
            del kw["path_type"]
            ctx.cell("default-omitted:path_type")
        return al.delta_conformity(graph, s, delta, alphas, lab, **kw)
    try:
        res = call(G)
    except Exception as ex:
        if raised_in_library(ex):
            ctx.violation("raised", dict(q, exception=repr(ex)))
            return
        raise
    in_window = [t for t in ids if start <= t <= start + delta]
    ctx.expect("none-iff-empty-window", res is None, not in_window, q)
    if res is None:
        ctx.cell("result:None")
        return
    from itertools import combinations
    profs = ["_".join(p) for i in range(1, psize + 1) for p in combinations(attrs, i)]
    present = set(x for x in nodes if any(m.present(k, start) and x in k for k in m.P))
    ok = (isinstance(res, dict) and set(res) == set("%.2f" % a for a in alphas)
          and all(isinstance(v, dict) and set(v) == set(profs) for v in res.values())
          and all(isinstance(d, dict) for v in res.values() for d in v.values()))
    ctx.expect("structure", ok, True, dict(q, observed_keys=repr(res)[:300]))
    if not ok:
        return
    scores = [(a, p, x, s) for a, v in res.items() for p, d in v.items() for x, s in d.items()]
    ctx.expect("node-set==present-at-start", [set(d) for v in res.values() for d in v.values()],
               [present] * (len(res) * len(profs)), q)
    bad = [(a, p, x, s) for a, p, x, s in scores if not (isinstance(s, (int, float)) and -1 - 1e-9 <= s <= 1 + 1e-9)]
    ctx.expect("range[-1,1]", bad, [], q)
    # invariance under renaming of label values
    perm = ["a", "b", "c"]
    rng.shuffle(perm)
    if rng.random() < 0.5:
        relabel = {a: dict(zip(["a", "b", "c"], [x.upper() + "!" for x in perm])) for a in attrs}
    else:
        # new values of mixed types whose text coincides (1 / "1" / 1.5 / "None" / None ...): still one-to-one
        pool = rng.sample([1, "1", None, "None", 2.5, "2.5", (1,), "(1,)"], 3)
        relabel = {a: dict(zip(["a", "b", "c"], pool)) for a in attrs}
        ctx.cell("relabel:mixed-types")
    try:
        r2 = call(build(dn, presence, labels, relabel=relabel))     # shared label objects on this side
        ctx.expect("inv:label-values", r2, res, dict(q, relabel=relabel), eq=close)
        # invariance under renaming of node ids (same history, same insertion order)
        shuffled = list(nodes)
        rng.shuffle(shuffled)
        new = [x + "x" for x in shuffled] if strings else [100 + 7 * nodes.index(x) for x in shuffled]
        rename = dict(zip(nodes, new))
        inv = {v: k for k, v in rename.items()}
        r3 = call(build(dn, presence, labels, rename=rename))
        ctx.expect("inv:node-ids", mapkeys(r3, inv), res, dict(q, rename=rename), eq=close)
        # one label shared by everybody
        same = {x: {"l1": "z"} for x in nodes}
        r4 = al.delta_conformity(build(dn, presence, same), start, delta, alphas, ["l1"], profile_size=1,
                                 path_type=ptype)
        # nodes that reach another node inside the slice
        from .. import pathsref
        sl = Model(False, True)
        for k, s in m.P.items():
            keep = set(t for t in s if start <= t <= start + delta)
            if keep:
                u, v = m.orient[k]
                for t in keep:
                    sl.apply(u, v, t, None)
        sids = sl.ids()
        exp4 = {}
        for x in present:
            reach = set(p[-1][1] for p in pathsref.brute_paths(sl, x, None, max(start, sids[0]),
                                                              min(sids[-1], start + delta)))
            exp4[x] = 1.0 if (reach - {x}) else 0.0
        want = {"%.2f" % a: {"l1": exp4} for a in alphas}
        ctx.expect("single-label", r4, want, q, eq=close)
        # the same closed form when the shared label is requested together with (after) a mixed one
        both = {x: dict(labels[x], same="z") for x in nodes}
        r5 = al.delta_conformity(build(dn, presence, both), start, delta, alphas, attrs + ["same"], profile_size=1,
                                 path_type=ptype)
        ctx.expect("single-label(among several)", {a: v.get("same") for a, v in r5.items()},
                   {"%.2f" % a: exp4 for a in alphas}, q, eq=close)
        ctx.expect("profiles-independent", {a: {p: v[p] for p in v if p != "same"} for a, v in r5.items()},
                   {a: {p: v[p] for p in v if "_" not in p} for a, v in res.items()}, q, eq=close)
    except pathsref.TooMany:
        ctx.skip("too many paths")
    except Exception as ex:
        if raised_in_library(ex):
            ctx.violation("raised", dict(q, exception=repr(ex), phase="metamorphic"))
            return
        raise
    if any(abs(s) > 0 for a, p, x, s in scores):
        ctx.nontrivial(repr(sorted(presence.items(), key=repr)), repr(sorted(labels.items(), key=repr)), repr(q))
    # sliding window == pointwise calls
    if rng.random() < 0.35:
        try:
            skw = dict(profile_size=psize, path_type=ptype)
            if psize == 1 and rng.random() < 0.5:
                del skw["profile_size"]
            if ptype == "shortest" and rng.random() < 0.5:
                del skw["path_type"]
            sres = al.sliding_delta_conformity(G, delta, alphas, attrs, **skw)
            exp = {}
            for t in ids:
                if t + delta < ids[-1]:
                    d = al.delta_conformity(G, t, delta, alphas, attrs, profile_size=psize, path_type=ptype)
                    if d is None:
                        continue
                    for a, pd in d.items():
                        for p, nd in pd.items():
                            for x, s in nd.items():
                                exp.setdefault(a, {}).setdefault(p, {}).setdefault(x, []).append((t + delta, s))
            obs = {a: {p: {x: list(v) for x, v in nd.items()} for p, nd in pd.items()} for a, pd in sres.items()}
            ctx.expect("sliding==pointwise", obs, exp, dict(q), eq=close)
        except Exception as ex:
            if raised_in_library(ex):
                ctx.violation("raised", dict(q, exception=repr(ex), phase="sliding"))
                return
            raise
    if len(ctx.samples) < 3:
        ctx.sample(ctx.case)


def run(ctx, dn):
    from ..core import case_deadline
    while ctx.time_left() > 1:
        with case_deadline(ctx, 20):
            one(ctx, dn)
