"""C17 - temporal statistics equal their stream-graph definitions."""
from collections import Counter
from fractions import Fraction
from itertools import combinations

import networkx as nx

from .. import driver, gen
from ..guard import raised_in_library
from ..model import Model

LEVEL = "exploration"
SHARDS = {"quick": 8, "thorough": 16}
BUDGET = {"quick": 20, "thorough": 200}
RULE = ("random removal-enabled DynGraphs without self-loops (interval spans, several runs per pair, nodes that "
        "appear and disappear, isolated nodes, 2-5 nodes, several id families) for the ratio measures; random graphs "
        "of both classes (self-loops allowed) for the inter-event distributions. Oracle: coverage, "
        "node_contribution, edge_contribution, uniformity, node_pair_uniformity, density, pair_density, "
        "node_density, snapshot_density, node_presence, avg_number_of_nodes are recomputed from the model's presence "
        "relation with fractions.Fraction and compared (rel. tol. 1e-12), and each asserted in [0,1]; "
        "inter_event_time_distribution (global, per node, dn. wrapper) and inter_in/out variants on digraphs equal "
        "the histogram of gaps between consecutive events of the actual stream restricted accordingly, with total "
        "mass #events-1 and weighted sum last-first. Zero-denominator cases are skipped and counted. distinct = "
        "distinct (model state, statistic).")
MIN = {"quick": {"coverage": 1500, "density": 1000, "node_density": 2500, "edge_contribution": 2000,
                 "inter_event(global)": 1500, "inter_event(node)": 2500, "inter_out_event(node)": 500},
       "thorough": {"coverage": 60000, "density": 40000, "node_density": 100000, "edge_contribution": 100000,
                    "inter_event(global)": 60000, "inter_event(node)": 100000, "inter_out_event(node)": 20000}}
REQUIRED_CELLS = {t: ("state:multi-run", "state:interval", "state:isolated", "state:node-disappears",
                      "state:>128-shared-snapshots", "ids:signs", "state:>64-nodes", "state:numpy+>63-snapshots", "asked-on-empty-graph-first")
                  for t in ("quick", "thorough")}


def close(a, b):
    try:
        return abs(float(a) - float(b)) <= 1e-12 * max(1.0, abs(float(b)))
    except (TypeError, ValueError):
        return False


def stat(ctx, name, fn, expected, detail, unit=True):
    try:
        got = fn()
    except ZeroDivisionError:
        if expected is None:
            ctx.skip("zero denominator: " + name)
            return
        ctx.violation(name, dict(detail, observed="ZeroDivisionError", expected=float(expected)))
        return
    except Exception as ex:
        if raised_in_library(ex):
            ctx.violation(name, dict(detail, exception=repr(ex)))
            return
        raise
    if expected is None:
        ctx.skip("zero denominator: " + name)
        return
    ctx.expect(name, got, float(expected), detail, eq=close)
    if unit:
        ctx.expect(name + ":in[0,1]", isinstance(got, (int, float)) and -1e-12 <= got <= 1 + 1e-12, True,
                   dict(detail, observed=got))


def ratio(n, d):
    return None if d == 0 else Fraction(n, d)


def ratios(ctx, dn):
    """the statistics are evaluated on the SAME live object at several points of its history (query, update,
    query again ...), as a monitor riding along a real program would see them"""
    rng = ctx.rng
    prog, fam = gen.random_program(rng, lambda: Model(False, True), directed=False,
                                   family=rng.choice(("int", "str", "negint", "tuple", "str_")), with_nodes=False)
    prog = [op for op in prog if not any(u == v for (u, v, t, e) in gen.elements(op))]
    if not prog:
        return
    if rng.random() < 0.04:
        # long-lived interactions: nodes sharing well over a hundred snapshots
        els = [x for op in prog for x in gen.elements(op)]
        nodes_ = sorted(set(n for x in els for n in x[:2]), key=repr)
        if len(nodes_) >= 2:
            t0 = max([x[2] for x in els if x[2] is not None] + [0]) + 20
            if rng.random() < 0.5:
                import numpy as np
                t0 = np.int64(int(t0))           # numpy stamps AND many snapshots together
                ctx.cell("state:numpy+>63-snapshots")
            span = rng.randint(130, 300)
            prog.append(("add", nodes_[0], nodes_[1], t0, t0 + span))
            if len(nodes_) > 2:
                prog.append(("add", nodes_[1], nodes_[2], t0 + 5, t0 + span - 7))
            ctx.cell("state:>128-shared-snapshots")
    G = driver.new_graph(dn, False, True)
    m = Model(False, True)
    if rng.random() < 0.3:
        # a caller that asks too early (no snapshot yet: the ratio measures are undefined and may raise) and goes on
        for f in (G.density, G.uniformity, G.coverage, G.avg_number_of_nodes):
            try:
                f()
            except Exception:
                pass
        ctx.cell("asked-on-empty-graph-first")
    ctx.cases += 1
    ctx.case = dict(workload="RATIOS", program=prog)
    cuts = sorted(set([len(prog)] + [rng.randint(1, len(prog)) for _ in range(2)]))
    done = 0
    for cut in cuts:
        for op in prog[done:cut]:
            m2 = m.copy()
            if gen.advance(m2, op) is not None:
                continue
            got, ex = driver.outcome(dn, G, op)
            if got is not None:
                ctx.skip("graph not built")
                return
            driver._adopt(m, m2)
        done = cut
        if m.nontrivial():
            ctx.case["evaluated_after_ops"] = cut
            evaluate_ratios(ctx, dn, G, m, last=(cut == len(prog)))
    if len(ctx.samples) < 3:
        ctx.sample(ctx.case)


def evaluate_ratios(ctx, dn, G, m, last):
    rng = ctx.rng
    if last and rng.random() < 0.4:
        G.add_node("lonely")
        m.add_node("lonely")
        ctx.cell("state:isolated")
    T = m.ids()
    V = list(m.nodes)
    St = {t: m.static(t) for t in T}
    Vt = {t: set(n for n, d in St[t].degree() if d > 0) for t in T}
    Tn = {n: set(t for t in T if n in Vt[t]) for n in V}
    from ..model import runs
    if any(len(runs(s)) > 1 for s in m.P.values()):
        ctx.cell("state:multi-run")
    if any(b > a for s in m.P.values() for a, b in runs(s)):
        ctx.cell("state:interval")
    if any(0 < len(Tn[n]) < len(T) for n in V):
        ctx.cell("state:node-disappears")
    d0 = dict()
    num = sum(len(Tn[u] & Tn[v]) for u, v in combinations(V, 2))
    den = sum(len(Tn[u] | Tn[v]) for u, v in combinations(V, 2))
    pd_num = sum(len(m.P.get(frozenset((u, v)), ())) for u, v in combinations(V, 2))

    def global_stats():
        stat(ctx, "coverage", G.coverage, ratio(sum(len(Vt[t]) for t in T), len(T) * len(V)), d0)
        stat(ctx, "avg_number_of_nodes", G.avg_number_of_nodes, ratio(sum(len(Vt[t]) for t in T), len(T)), d0,
             unit=False)
        stat(ctx, "uniformity", G.uniformity, ratio(num, den), d0)
        stat(ctx, "density", G.density, ratio(pd_num, num), d0)
    # the order in which a caller asks is free: graph-level measures first, or node-level ones first
    globals_first = rng.random() < 0.5
    if globals_first:
        global_stats()
    for u in rng.sample(V, min(3, len(V))):
        du = dict(u=u)
        stat(ctx, "node_contribution", lambda: G.node_contribution(u), ratio(len(Tn[u]), len(T)), du)
        raw = G.node_presence(u)
        ctx.expect("node_presence", raw, Tn[u], du)
        if isinstance(raw, set):
            raw.clear()          # a caller may edit the set it was given; the next answer must not care
        ctx.expect("node_presence", G.node_presence(u), Tn[u], dict(du, note="after the caller edited the returned set"))
        nd_num = sum(St[t].degree(u) for t in T)
        nd_den = sum(len(Tn[v] & Tn[u]) for v in V)
        stat(ctx, "node_density", lambda: G.node_density(u), ratio(nd_num, nd_den) if nd_den else Fraction(0), du)
        for v in rng.sample(V, min(2, len(V))):
            if v == u:
                continue
            duv = dict(u=u, v=v)
            k = frozenset((u, v))
            inter, union = len(Tn[u] & Tn[v]), len(Tn[u] | Tn[v])
            stat(ctx, "node_pair_uniformity", lambda: G.node_pair_uniformity(u, v), ratio(inter, union), duv)
            stat(ctx, "pair_density", lambda: G.pair_density(u, v),
                 ratio(len(m.P.get(k, ())), inter) if inter else Fraction(0), duv)
            if k in m.P:
                stat(ctx, "edge_contribution", lambda: G.edge_contribution(u, v), ratio(len(m.P[k]), len(T)), duv)
    if not globals_first:
        global_stats()
    for t in rng.sample(T, min(3, len(T))):
        sub = St[t].subgraph(Vt[t])
        stat(ctx, "snapshot_density", lambda: G.snapshot_density(t), Fraction(nx.density(sub)).limit_denominator(10 ** 6),
             dict(t=t))
    ctx.nontrivial(m.state_key(), "ratios")


def many_nodes(ctx, dn):
    """70-100 nodes: the statistics that are linear in the number of nodes (coverage, avg_number_of_nodes,
    node_contribution, node_presence) on a graph wider than a machine word"""
    rng = ctx.rng
    n = rng.randint(70, 100)
    G = dn.DynGraph()
    m = Model(False, True)
    for i in range(n - 1):
        t = rng.randint(0, 6)
        e = t + rng.randint(1, 3)
        G.add_interaction(i, i + 1, t, e)
        m.apply(i, i + 1, t, e)
    ctx.cases += 1
    ctx.case = dict(workload="MANY-NODES", n=n)
    ctx.cell("state:>64-nodes")
    T = m.ids()
    present = {t: set() for t in T}
    for k, sset in m.P.items():
        for t in sset:
            present[t] |= set(k)
    tot = sum(len(v) for v in present.values())
    stat(ctx, "coverage", G.coverage, ratio(tot, len(T) * n), dict(n=n))
    stat(ctx, "avg_number_of_nodes", G.avg_number_of_nodes, ratio(tot, len(T)), dict(n=n), unit=False)
    for u in (0, 63, 64, 65, n - 1):
        tu = set(t for t in T if u in present[t])
        stat(ctx, "node_contribution", lambda: G.node_contribution(u), ratio(len(tu), len(T)), dict(u=u, n=n))
        ctx.expect("node_presence", G.node_presence(u), tu, dict(u=u, n=n))
    ctx.nontrivial("many-nodes", n, tuple(sorted((repr(k), tuple(sorted(v))) for k, v in m.P.items()))[:5])


def hist(events):
    times = [e[3] for e in events]
    return dict(Counter(b - a for a, b in zip(times, times[1:])))


def inter_event(ctx, dn):
    rng = ctx.rng
    directed = rng.random() < 0.5
    signs = rng.random() < 0.1
    prog, fam = gen.random_program(rng, lambda: Model(directed, True), directed=directed, with_nodes=False,
                                   family="str" if signs else None)
    if signs:
        # node ids that coincide with the event markers of the stream
        ren = {"n0": "+", "n1": "-", "n2": "a"}

        def rn(x):
            return ren.get(x, x)
        prog = [(op[0], rn(op[1]), rn(op[2]), op[3], op[4]) if op[0] == "add" else
                (op[0], [(rn(x[0]), rn(x[1])) + tuple(x[2:]) for x in op[1]], op[2], op[3]) if op[0] == "addfrom" else
                (op[0], [rn(x) for x in op[1]]) + tuple(op[2:]) for op in prog]
        ctx.cell("ids:signs")
    G, m, ok = driver.build_accepted(dn, prog, directed)
    if not ok or not m.nontrivial():
        ctx.skip("graph not built")
        return
    ctx.cases += 1
    ctx.case = dict(workload="INTER-EVENT", directed=directed, program=prog)
    ev = list(G.stream_interactions())

    def check(name, got, sel, detail):
        exp = hist(sel)
        ctx.expect(name, got, exp, detail)
        if isinstance(got, dict):
            mass = sum(got.values())
            wsum = sum(k * v for k, v in got.items())
            ctx.expect(name + ":mass", (mass, wsum),
                       (max(len(sel) - 1, 0), (sel[-1][3] - sel[0][3]) if sel else 0), detail)
    check("inter_event(global)", G.inter_event_time_distribution(), ev, dict())
    check("dn.inter_event(global)", dn.inter_event_time_distribution(G), ev, dict())
    if directed:
        check("inter_out_event(global)", G.inter_out_event_time_distribution(), ev, dict())
        check("inter_in_event(global)", G.inter_in_event_time_distribution(), ev, dict())
    for u in rng.sample(list(m.nodes), min(3, len(m.nodes))):
        du = dict(u=u)
        sel = [e for e in ev if e[0] == u or e[1] == u]
        check("inter_event(node)", G.inter_event_time_distribution(u), sel, du)
        check("dn.inter_event(node)", dn.inter_event_time_distribution(G, u), sel, du)
        if directed:
            check("inter_out_event(node)", G.inter_out_event_time_distribution(u), [e for e in ev if e[0] == u], du)
            check("inter_in_event(node)", G.inter_in_event_time_distribution(u), [e for e in ev if e[1] == u], du)
    ctx.nontrivial(m.state_key(), "inter-event")


def run(ctx, dn):
    k = 0
    while ctx.time_left() > 1:
        ratios(ctx, dn)
        inter_event(ctx, dn)
        if k % 40 == 3:
            many_nodes(ctx, dn)
        k += 1
