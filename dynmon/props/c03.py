"""C03 - timelines are canonical: sorted, disjoint, non-adjacent closed intervals.

This module checks graphs built by accepted histories; the derived constructors (time_slice,
to_directed, to_undirected, read_snapshots, read_interactions, node_link_graph) are audited
with the same oracle (audit.audit_timelines) from here too, see derived().
"""
from .. import audit, driver, gen
from ..guard import guarded
from ..model import Model
from . import _hist

LEVEL = "exploration"
SHARDS = {"quick": 8, "thorough": 16}
BUDGET = {"quick": 18, "thorough": 200}
RULE = ("same history workloads as C01 (EX1/EX2/RND/STRESS/PASSIVE); after every accepted call the third element of "
        "interactions()/in_interactions()/out_interactions() (t omitted) is checked: list of [start,end] int "
        "pairs, start<=end, next start >= previous end+2, union == the model's presence set, each pair listed "
        "once, identical from both end points / from the in- and out- side. DERIVED = the same oracle on every "
        "graph returned by time_slice, to_directed, to_undirected, read_snapshots, read_interactions and "
        "node_link_graph for random source graphs. distinct = distinct (canonical model state, last op kind | "
        "constructor).")
MIN = {"quick": {"timeline:canonical": 20000, "timeline:union==presence": 20000, "derived:": 2000},
       "thorough": {"timeline:canonical": 400000, "timeline:union==presence": 400000, "derived:": 40000}}
REQUIRED_CELLS = {t: ("derived:time_slice", "derived:to_directed", "derived:to_undirected",
                      "derived:read_snapshots", "derived:read_interactions", "derived:node_link_graph")
                  for t in ("quick", "thorough")}


def battery(ctx, dn, G, m):
    audit.audit_timelines(ctx, dn, G, m)


def canonical_only(ctx, dn, H, directed, tag):
    """C03 on a derived graph, without assuming what its presence should be (that is C06/C09-C11/C16's
    business): canonical form and union == H's own has_interaction relation."""
    lst = H.out_interactions() if directed else H.interactions()
    ids = H.temporal_snapshots_ids()
    lo, hi = (min(ids) - 1, max(ids) + 1) if ids else (0, 0)
    for u, v, d in lst:
        tl = d.get('t')
        ctx.expect(tag + "canonical", audit.canonical_problem(tl), None, dict(pair=(u, v), timeline=tl))
        if audit.canonical_problem(tl) is None:
            union = set()
            for a, b in tl:
                union |= set(range(a, b + 1))
            own = set(t for t in range(min(lo, tl[0][0] - 1), max(hi, tl[-1][1] + 1) + 1)
                      if H.has_interaction(u, v, t))
            ctx.expect(tag + "union==has_interaction", sorted(union), sorted(own), dict(pair=(u, v)))


def derived(ctx, dn):
    import io
    import json
    rng = ctx.rng
    directed = rng.random() < 0.5
    if rng.random() < 0.1:
        prog, fam = gen.long_timeline_program(rng, directed), dict(nodes="int")
    else:
        prog, fam = gen.random_program(rng, lambda: Model(directed, True), directed=directed,
                                       family=rng.choice(("int", "str")), tfamily=rng.choice(("small", "neg")),
                                       with_nodes=False)
    if rng.random() < 0.2:
        # an interval that ends exactly at instant 0 from a negative start, on a fresh pair
        prog = [("add", "z0" if fam.get("nodes") == "str" else 900, "z1" if fam.get("nodes") == "str" else 901,
                 -rng.randint(1, 4), 1)] + list(prog)
        ctx.cell("src:interval-ending-at-0")
    G, m, ok = driver.build_accepted(dn, prog, directed)
    if not ok or not m.nontrivial():
        ctx.skip("derived: source graph not built")
        return
    ctx.cases += 1
    ctx.case = dict(workload="DERIVED", directed=directed, program=prog)
    ids = m.ids()
    a = rng.choice(ids)
    b = rng.choice([x for x in ids if x >= a])
    made, kept = [], []
    from . import c06, c16
    expected = {"time_slice": lambda: c06.slice_model(m, a, b)}
    made.append(("time_slice", lambda: G.time_slice(a, b), directed))
    made.append(("time_slice(all)", lambda: G.time_slice(ids[0] - 1, ids[-1] + 1), directed))
    if ids[0] < 0 <= ids[-1]:
        made.append(("time_slice(to0)", lambda: G.time_slice(ids[0], 0), directed))
        expected["time_slice(to0)"] = lambda: c06.slice_model(m, ids[0], 0)
    expected["time_slice(all)"] = lambda: c06.slice_model(m, ids[0] - 1, ids[-1] + 1)
    if directed:
        made.append(("to_undirected", lambda: G.to_undirected(), False))
        expected["to_undirected"] = lambda: c16.und_model(m, False)
        made.append(("to_undirected(reciprocal)", lambda: G.to_undirected(reciprocal=True), False))
        expected["to_undirected(reciprocal)"] = lambda: c16.und_model(m, True)
    else:
        made.append(("to_directed", lambda: G.to_directed(), True))
    nodetype = int if fam["nodes"] == "int" else str

    def rs():
        buf = io.BytesIO()
        dn.write_snapshots(G, buf)
        buf.seek(0)
        return dn.read_snapshots(buf, directed=directed, nodetype=nodetype, timestamptype=int)

    def ri():
        buf = io.BytesIO()
        dn.write_interactions(G, buf)
        buf.seek(0)
        return dn.read_interactions(buf, directed=directed, nodetype=nodetype, timestamptype=int)

    def nl():
        from dynetx.readwrite import json_graph
        return json_graph.node_link_graph(json.loads(json.dumps(json_graph.node_link_data(G))))
    made += [("read_snapshots", rs, directed), ("read_interactions", ri, directed), ("node_link_graph", nl, directed)]
    # snapshot files and node-link data carry the presence relation itself: the timelines read back are exactly
    # the source's (the event log written by write_interactions is subject to known finding D-E: not compared)
    from .. import iohelp
    expected["read_snapshots"] = lambda: iohelp.retype(m)
    expected["node_link_graph"] = lambda: iohelp.retype(m)
    for name, f, d in made:
        ctx.case["constructor"] = name
        try:
            H = f()
        except Exception as ex:
            from ..guard import raised_in_library
            if raised_in_library(ex):
                ctx.violation("derived:%s:raised" % name, dict(exception=repr(ex), window=(a, b)))
                continue
            raise
        ctx.cell("derived:" + name.split("(")[0])
        guarded(ctx, "derived:" + name, canonical_only, ctx, dn, H, d, "derived:%s:" % name)
        if name in expected:
            # where the expected presence of the derived graph is defined without reference to a known finding,
            # the timelines must be exactly its runs
            guarded(ctx, "derived:" + name, audit.audit_timelines, ctx, dn, H, expected[name](), "derived:%s:" % name)
        kept.append((name, H, d))
        ctx.nontrivial(m.state_key(), name, (a, b) if name == "time_slice" else None)
        name = name.split("(")[0]
    # the derived graphs stay canonical when they and their source are updated later (no shared interval lists):
    # each derived graph gets a new one-instant run two instants after the latest run of every pair, then the
    # source prolongs its own latest runs over that instant
    from .c16 import grow
    try:
        for name, H, d in kept:
            for (u, v, dd) in (H.out_interactions() if d else H.interactions()):
                H.add_interaction(u, v, dd["t"][-1][1] + 2)
        for (u, v, dd) in (G.out_interactions() if directed else G.interactions()):
            G.add_interaction(u, v, dd["t"][-1][1], dd["t"][-1][1] + 3)
        grow(ctx, G)
    except Exception as ex:
        from ..guard import raised_in_library
        if not raised_in_library(ex):
            raise
        ctx.violation("derived:source-update:raised", dict(exception=repr(ex)))
    for name, H, d in kept:
        ctx.case["constructor"] = name + " (re-inspected after the source was updated)"
        guarded(ctx, "derived-later:" + name, canonical_only, ctx, dn, H, d, "derived-later:%s:" % name)
    if len(ctx.samples) < 6 and rng.random() < 0.01:
        ctx.sample(ctx.case)


def passive_battery(ctx, dn, G, m):
    # graphs built by the repository's own tests (removal-enabled ones; accumulative ones belong to C08)
    if m.removal:
        battery(ctx, dn, G, m)


def run(ctx, dn):
    if ctx.shard == 0:
        from .. import passive
        ctx.notes["passive_graphs"] = passive.run(ctx, dn, passive_battery)
    if ctx.tier == "quick":
        _hist.exhaustive(ctx, dn, battery, 2, two_pairs_len=2)
        t_end = ctx.time_left() * 0.45
        _hist.second_life(ctx, dn, battery, 6)
        _hist.long_second_life(ctx, dn, battery)
        _hist.around_zero(ctx, dn, battery, 2)
        _hist.stress(ctx, dn, battery, 300, every=100, base=2 ** 60)
        _hist.long_timelines(ctx, dn, battery, 4)
        _hist.random_histories(ctx, dn, battery, until=t_end, clears=True)
        _hist.stress(ctx, dn, battery, 1500, every=100)
    else:
        _hist.exhaustive(ctx, dn, battery, 3, two_pairs_len=3)
        _hist.second_life(ctx, dn, battery, 60)
        for _ in range(4):
            _hist.long_second_life(ctx, dn, battery)
        _hist.around_zero(ctx, dn, battery, 3)
        _hist.stress(ctx, dn, battery, 2000, every=200, base=2 ** 60)
        _hist.long_timelines(ctx, dn, battery, 40)
        _hist.random_histories(ctx, dn, battery, until=ctx.time_left() * 0.4, clears=True)
        for _ in range(3):
            _hist.stress(ctx, dn, battery, 6000, every=200)
    while ctx.time_left() > 1:
        derived(ctx, dn)
