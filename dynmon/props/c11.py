"""C11 - JSON node-link data round-trips class, nodes, attributes and presence."""
import copy
import json
from collections import Counter

from .. import audit, driver, gen
from ..guard import guarded, raised_in_library
from ..model import Model

LEVEL = "exploration"
SHARDS = {"quick": 8, "thorough": 16}
BUDGET = {"quick": 20, "thorough": 180}
RULE = ("random removal-enabled graphs of both classes with JSON-native node ids (int or str), reciprocal directed "
        "pairs, self-loops, isolated nodes, node and graph attributes with nested JSON values, default and custom "
        "attrs['id']. Oracle: json.dumps(node_link_data(G)) succeeds; data['directed'] is G's directedness; the "
        "node list has every node once with its attributes under the id key; links == one {source,target,time} per "
        "interaction and present instant (orientation kept when directed); H = node_link_graph(json.loads("
        "json.dumps(data))) has G's class, nodes, node attributes, graph attributes and presence (audit "
        "C01/C03/C04); the 'directed' argument decides the class only when the key is deleted. distinct = "
        "distinct (model state, id key, class).")
MIN = {"quick": {"links==model": 3000, "rebuilt:has_interaction(u,v,t)": 50000, "directed-arg": 3000},
       "thorough": {"links==model": 60000, "rebuilt:has_interaction(u,v,t)": 1000000, "directed-arg": 60000}}
REQUIRED_CELLS = {t: ("class:DynGraph", "class:DynDiGraph", "ids:int", "ids:str", "idkey:custom", "idkey:default",
                      "src:isolated", "src:reciprocal", "src:self-loop", "attr-named-id", "ids:textual-twins",
                      "attr-named-like-link-fields", "graph-attr-named-like-ctor-params") for t in ("quick", "thorough")}


def one(ctx, dn):
    from dynetx.readwrite import json_graph
    rng = ctx.rng
    directed = rng.random() < 0.5
    fam = rng.choice(("int", "str", "int", "str", "textual-twins"))
    prog, f = gen.random_program(rng, lambda: Model(directed, True), directed=directed,
                                 family="int" if fam == "textual-twins" else fam, with_nodes=False,
                                 tfamily=rng.choice(("small", "small", "neg", "big", "huge")), p_big=0.03)
    if fam == "textual-twins":
        # ids that are different keys but have the same text: 1 and "1", 2 and "2" (both JSON-native)
        seen = []
        for op in prog:
            for (u, v, t, e) in gen.elements(op):
                for x in (u, v):
                    if x not in seen:
                        seen.append(x)
            if op[0] in ("path", "star", "cycle", "dn.path", "dn.star", "dn.cycle"):
                for x in op[1]:
                    if x not in seen:
                        seen.append(x)
        twin = {x: (str(seen[i - 1]) if i % 2 else x) for i, x in enumerate(seen)}

        def rn(op):
            if op[0] == "add":
                return (op[0], twin[op[1]], twin[op[2]], op[3], op[4])
            if op[0] == "addfrom":
                return (op[0], [(twin[x[0]], twin[x[1]]) + tuple(x[2:]) for x in op[1]], op[2], op[3])
            return (op[0], [twin[x] for x in op[1]]) + tuple(op[2:])
        prog = [rn(op) for op in prog]
        ctx.cell("ids:textual-twins")
    G, m, ok = driver.build_accepted(dn, prog, directed)
    if not ok or not m.nontrivial():
        ctx.skip("graph not built")
        return
    ctx.cases += 1
    idkey = rng.choice(("id", "id", "name", "key"))
    ctx.case = dict(workload="JSON", directed=directed, program=prog, idkey=idkey)
    ctx.cell("class:" + ("DynDiGraph" if directed else "DynGraph"))
    if fam != "textual-twins":
        ctx.cell("ids:" + fam)
    ctx.cell("idkey:" + ("default" if idkey == "id" else "custom"))
    # attributes
    n0 = next(iter(m.nodes))
    a0 = {"color": "red", "w": [1, 2, {"x": None}], "f": 1.5, "ok": True, "nothing": None, "zero": 0, "empty": ""}
    if rng.random() < 0.4:
        # attribute names that coincide with the field names of a link record
        a0.update({"source": "s-attr", "target": ["t-attr"], "time": 12})
        ctx.cell("attr-named-like-link-fields")
    if idkey != "id" and rng.random() < 0.5:
        a0["id"] = "an ordinary attribute when the id key is %r" % idkey
        ctx.cell("attr-named-id")
    G.add_node(n0, **copy.deepcopy(a0))
    m.add_node(n0, **copy.deepcopy(a0))
    if rng.random() < 0.7:
        iso = 777 if fam in ("int", "textual-twins") else "iso"
        G.add_node(iso, tags=["t"])
        m.add_node(iso, tags=["t"])
        ctx.cell("src:isolated")
    G.graph["title"] = "g"
    G.graph["meta"] = {"k": [1, {"z": 2}]}
    m.graph = {"title": "g", "meta": {"k": [1, {"z": 2}]}}
    if rng.random() < 0.3:
        # graph attributes whose names coincide with constructor parameters
        extra = {"edge_removal": False, "data": "payload", "incoming_graph_data": None, "name": "nm"}
        G.graph.update(extra)
        m.graph.update(extra)
        ctx.cell("graph-attr-named-like-ctor-params")
    S = m.static(None)
    if any(S.has_edge(n, n) for n in S):
        ctx.cell("src:self-loop")
    if directed and any(S.has_edge(v, u) for u, v in S.edges() if u != v):
        ctx.cell("src:reciprocal")
    attrs = dict(id=idkey, source="source", target="target")
    try:
        data = json_graph.node_link_data(G) if idkey == "id" else json_graph.node_link_data(G, attrs=attrs)
        text = json.dumps(data)
    except Exception as ex:
        if raised_in_library(ex) or isinstance(ex, TypeError):
            ctx.violation("node_link_data:serialisable", dict(exception=repr(ex)))
            return
        raise
    ctx.count("node_link_data:serialisable")
    ctx.expect("data:directed", data.get("directed"), directed, dict())
    obs_nodes = sorted(((d.get(idkey), {k: v for k, v in d.items() if k != idkey}) for d in data["nodes"]), key=repr)
    exp_nodes = sorted(((n, a) for n, a in m.nodes.items()), key=repr)
    ctx.expect("data:nodes", obs_nodes, exp_nodes, dict())
    ctx.expect("data:graph", data.get("graph"), m.graph, dict())
    shape = all(set(l) == {"source", "target", "time"} for l in data["links"])
    ctx.expect("links:shape", shape, True, dict(sample=data["links"][:3]))
    if shape:
        if directed:
            obs = Counter((l["source"], l["target"], l["time"]) for l in data["links"])
            exp = Counter((u, v, t) for (u, v), s in m.P.items() for t in s)
        else:
            obs = Counter((frozenset((l["source"], l["target"])), l["time"]) for l in data["links"])
            exp = Counter((k, t) for k, s in m.P.items() for t in s)
        ctx.expect("links==model", obs, exp, dict())
    # rebuild through a real JSON encoder/decoder
    back = json.loads(text)
    try:
        H = json_graph.node_link_graph(back) if idkey == "id" else json_graph.node_link_graph(back, attrs=attrs)
    except Exception as ex:
        if raised_in_library(ex):
            ctx.violation("node_link_graph:raised", dict(exception=repr(ex)))
            return
        raise
    ctx.expect("rebuilt:class", type(H) is type(G), True, dict())
    guarded(ctx, "rebuilt:audit", audit.audit_all, ctx, dn, H, m, "rebuilt:", ("C01", "C03", "C04"))
    ctx.expect("rebuilt:nodes", (len(H.nodes()), dict(H.nodes(data=True))), (len(m.nodes), m.nodes), dict())
    ctx.expect("rebuilt:graph-attrs", dict(H.graph), m.graph, dict())
    # the directed argument matters only when the data does not say
    for arg in (True, False):
        H2 = json_graph.node_link_graph(json.loads(text), directed=arg, attrs=attrs)
        ctx.expect("directed-arg", H2.is_directed(), directed, dict(argument=arg, key_present=True))
        if directed and not arg:
            # directed data re-read as undirected may legitimately be rejected (the two directions of a
            # pair arrive out of chronological order); not part of the statement
            continue
        b2 = json.loads(text)
        del b2["directed"]
        H3 = json_graph.node_link_graph(b2, directed=arg, attrs=attrs)
        ctx.expect("directed-arg", (H3.is_directed(), type(H3) is (dn.DynDiGraph if arg else dn.DynGraph)),
                   (arg, True), dict(argument=arg, key_present=False))
    if not directed:
        # neither the data nor the caller says: the documented default (directed=False) applies
        b3 = json.loads(text)
        del b3["directed"]
        H4 = json_graph.node_link_graph(b3) if idkey == "id" else json_graph.node_link_graph(b3, attrs=attrs)
        ctx.expect("directed-arg", (H4.is_directed(), type(H4) is dn.DynGraph), (False, True),
                   dict(argument="omitted", key_present=False))
    ctx.nontrivial(m.state_key(), idkey)
    if len(ctx.samples) < 3:
        ctx.sample(dict(ctx.case, json=text[:400]))


def run(ctx, dn):
    while ctx.time_left() > 1:
        one(ctx, dn)
