"""Shared history workloads for the properties decided by 'history + executable model'
(C01, C03, C04, C05; C02 and C08 reuse pieces).  See DESIGN.md 3.4.

`audit(ctx, dn, G, m)` is the property's own battery; it is run after every accepted call in the
short workloads and every k-th call in the stress workload.
"""
from .. import gen, driver
from ..guard import guarded
from ..model import Model, runs


def _case(ctx, workload, directed, prog, removal=True, **kw):
    ctx.case = dict(workload=workload, directed=directed, removal=removal, program=prog, **kw)
    ctx.cases += 1


def cell_for(ctx, m, op):
    """count the relative-position cell an accepted/rejected single add falls in"""
    if op[0] != "add" or op[3] is None:
        return
    k = m.key(op[1], op[2])
    if k in m.P and m.P[k]:
        latest = runs(m.P[k])[-1]
        cls = gen.classify(latest, op[3], op[4])
        kind = "point" if op[4] is None else "interval"
        lk = "onto-point" if latest[0] == latest[1] else "onto-interval"
        ctx.cell("rp:%s/%s/%s" % (cls, kind, lk))


def run_program(ctx, dn, prog, directed, audit, removal=True, every=1, final=True, name="audit"):
    """lock-step execution with audits; returns (G, m, ok)"""
    G = driver.new_graph(dn, directed, removal)
    m = Model(directed, removal)
    n = 0
    dangling = []        # iterators started, advanced once and never finished: they stay alive to the end
    for op in prog:
        cell_for(ctx, m, op)
        lazy = None
        r = ctx.rng.random()
        if m.P and r < 0.04:
            ids_ = m.ids()
            it = G.interactions_iter(t=ctx.rng.choice(ids_)) if ids_ else G.interactions_iter()
            next(it, None)
            dangling.append(it)
            ctx.cell("dangling-iterator")
        elif m.P and r < 0.08 and op[0] in ("add", "addfrom", "path", "star", "cycle"):
            # a stream requested before the call and read after it
            before = list(G.stream_interactions())
            lazy = (G.stream_interactions(), before)
        if op[0] == "addfrom" and m.removal and len(op[1]) > 1 and op[2] is not None and ctx.rng.random() < 0.4:
            ok = probed_bulk(ctx, dn, G, m, op)
            rejected = False
        else:
            ok, rejected = driver.step(ctx, dn, G, m, op)
        if not ok:
            return G, m, False
        if lazy is not None:
            ctx.cell("stream-requested-before-read-after")
            try:
                got = list(lazy[0])
                now = list(G.stream_interactions())
                ctx.count("stream:requested-before/read-after")
                if got != now and got != lazy[1]:
                    ctx.finding("stream:requested-before/read-after",
                                "unclassified:stream:requested-before/read-after",
                                dict(op=op, read=got[:12], at_request=lazy[1][:12], at_read=now[:12]))
            except Exception as ex:
                from ..guard import raised_in_library
                if raised_in_library(ex) or isinstance(ex, (TypeError, RuntimeError, KeyError)):
                    ctx.finding("stream:requested-before/read-after", "unclassified:stream:requested-before/read-after",
                                dict(op=op, exception=repr(ex)))
                else:
                    raise
        n += 1
        if every and n % every == 0 and not (final and n == len(prog)):
            guarded(ctx, name, audit, ctx, dn, G, m)
    if final:
        guarded(ctx, name, audit, ctx, dn, G, m)
        if ctx.rng.random() < 0.04 and m.nontrivial() and not any(isinstance(n_, gen.Obj) for n_ in m.nodes):
            # (ids that hash by identity are not "the same nodes" in a copy: not a meaningful comparison)
            # the object survives the standard ways of duplicating it
            import copy
            import pickle
            ctx.cell("copied:deepcopy+pickle")
            try:
                for how, G2 in (("deepcopy", copy.deepcopy(G)), ("pickle", pickle.loads(pickle.dumps(G)))):
                    ctx.case["copied_by"] = how
                    guarded(ctx, name, audit, ctx, dn, G2, m)
                ctx.case.pop("copied_by", None)
            except (TypeError, AttributeError, pickle.PicklingError) as ex:
                ctx.skip("graph not picklable/copyable in this id family: %s" % type(ex).__name__)
    if m.nontrivial():
        ctx.nontrivial(m.state_key(), prog[-1][0] if prog else None)
    return G, m, True


def probed_bulk(ctx, dn, G, m, op):
    """add_interactions_from fed by a lazy bunch that looks at the graph between two pairs: what it sees must be
    the state after the pairs handed over so far (snapshot ids, per-snapshot counts, presence of the last pair)"""
    seen = []
    pairs = [tuple(x) for x in op[1]]

    def bunch():
        for i, p in enumerate(pairs):
            if i:
                u, v = pairs[i - 1][0], pairs[i - 1][1]
                seen.append((i, list(G.temporal_snapshots_ids()), dict(G.interactions_per_snapshots()),
                             G.has_interaction(u, v, op[2])))
            yield p
    m2 = m.copy()
    states = []
    exp = None
    for i, p in enumerate(pairs):
        if i:
            states.append((list(m2.ids()), {t: m2.count_at(t) for t in m2.ids()},
                           m2.present(m2.key(pairs[i - 1][0], pairs[i - 1][1]), op[2])))
        vd = m2.verdict(p[0], p[1], op[2], op[3])
        if vd:
            exp = vd
            break
        m2.apply(p[0], p[1], op[2], op[3])
    got = None
    try:
        G.add_interactions_from(bunch(), op[2], op[3])
    except Exception as ex:
        got = type(ex).__name__
    ctx.cell("bulk-observed-between-pairs")
    if not ctx.expect("add_interaction:outcome", got, exp, dict(op=op, form="lazy probing bunch")):
        return False
    for (i, ids, counts, pres), (eids, ecounts, epres) in zip(seen, states):
        ctx.expect("bulk:state-between-pairs", (ids, counts, pres), (eids, ecounts, epres),
                   dict(op=op, after_pairs=i))
    driver._adopt(m, m2)
    return True


def exhaustive(ctx, dn, audit, max_len, classes=(False, True), tmax=4, spans=(None, 1, 2, 3), two_pairs_len=0,
               reserve_frac=0.45):
    """EX: every history over the single-pair alphabet (both endpoint orders) up to max_len, and
    (optionally) every history over the two-pairs + self-loop alphabet up to two_pairs_len.
    The history is audited at its end (its prefixes are histories of their own)."""
    alpha = gen.all_single_pair_ops(tmax=tmax, spans=spans)
    done = True
    reserve = ctx.budget_s * reserve_frac
    for directed in classes:
        for prog in gen.enumerate_histories(alpha, max_len, ctx.shard, ctx.nshards):
            if ctx.time_left() < reserve:
                done = False          # the universe was not finished: never reported as exhaustive
                break
            _case(ctx, "EX1", directed, prog)
            run_program(ctx, dn, prog, directed, audit, every=0)
    ctx.sample(dict(workload="EX1", program=prog))
    if two_pairs_len:
        alpha2 = gen.two_pair_ops()
        for directed in classes:
            for prog in gen.enumerate_histories(alpha2, two_pairs_len, ctx.shard, ctx.nshards):
                _case(ctx, "EX2", directed, prog)
                run_program(ctx, dn, prog, directed, audit, every=0)
        ctx.sample(dict(workload="EX2", program=prog))
    ctx.notes["exhaustive_done"] = 1 if done else 0
    return done


def random_histories(ctx, dn, audit, until, removal=True, every=1, **genkw):
    """RND/RP: random histories biased to all relative-position classes, until `until` seconds of
    the budget remain"""
    n = 0
    bystander = None
    while ctx.time_left() > until:
        directed = ctx.rng.random() < 0.5
        prog, fam = gen.random_program(ctx.rng, lambda: Model(directed, True), directed=directed, **genkw)
        _case(ctx, "RND", directed, prog, removal=removal, families=fam)
        # the monitor looks after every call in most histories, but sometimes only now and then or only at
        # the end (state that heals when inspected must not escape)
        ev = every if ctx.rng.random() < 0.75 else ctx.rng.choice((0, 2, 4))
        G, m, ok = run_program(ctx, dn, prog, directed, audit, removal=removal, every=ev)
        if n < 2:
            ctx.sample(ctx.case)
        # instances are independent: a graph built earlier and left alone still answers as its own model says
        # after other graphs have been built and updated (class-level or shared mutable state would show here)
        if bystander is not None and n % 5 == 0:
            bG, bm, bcase = bystander
            ctx.case = dict(bcase, role="bystander re-audited after", later_program=prog)
            ctx.cell("bystander-reaudited")
            guarded(ctx, "bystander", audit, ctx, dn, bG, bm)
        if ok and m.nontrivial() and (bystander is None or n % 5 == 0):
            bystander = (G, m, ctx.case)
        n += 1
    return n


def stress(ctx, dn, audit, n_ops, every=50, base=0):
    """STRESS: one long history over 2-3 pairs; audits every `every` ops (base shifts all stamps, e.g. beyond
    2**53)"""
    directed = ctx.rng.random() < 0.5
    rng = ctx.rng
    m = Model(directed, True)
    pairs = [(0, 1), (1, 2), (2, 2)] if rng.random() < 0.5 else [(0, 1), (1, 0), (0, 2)]
    prog = []
    for _ in range(n_ops):
        u, v = rng.choice(pairs)
        if rng.random() < 0.25:
            u, v = v, u
        k = m.key(u, v)
        span = None
        if k in m.P and m.P[k]:
            latest = runs(m.P[k])[-1]
            cls = rng.choice(gen.RP_CLASSES[1:] + ("gap", "adjacent", "overlap"))
            span = gen.rp_span(rng, latest, cls, rng.choice(("point", "interval")))
        if span is None:
            t = base + rng.randint(0, 5)
            span = (t, None if rng.random() < 0.5 else t + rng.randint(1, 3))
            if k in m.P and m.P[k] and span[0] < runs(m.P[k])[-1][0]:
                span = (runs(m.P[k])[-1][1] + 2, None)
        op = ("add", u, v, span[0], span[1])
        prog.append(op)
        gen.advance(m, op)
    _case(ctx, "STRESS", directed, prog)
    G, m2, ok = run_program(ctx, dn, prog, directed, audit, every=every)
    ctx.sample(dict(workload="STRESS", directed=directed, ops=len(prog), head=prog[:12]))
    return ok


def second_life(ctx, dn, audit, n=1):
    """RESET: a graph is filled and inspected, emptied with clear()/clear_edges(), refilled with the same
    history shifted in time WITHOUT being looked at, and inspected at the end only."""
    from .. import driver as drv
    for _ in range(n):
        directed = ctx.rng.random() < 0.5
        prog, fam = gen.random_program(ctx.rng, lambda: Model(directed, True), directed=directed,
                                       tfamily=ctx.rng.choice(("small", "neg")), p_big=0, with_nodes=False)
        shift = ctx.rng.choice((3, 7, 20, 100))

        def sh(op):
            if op[0] == "add":
                return (op[0], op[1], op[2], None if op[3] is None else op[3] + shift,
                        None if op[4] is None else op[4] + shift)
            if op[0] == "addfrom":
                return (op[0], op[1], None if op[2] is None else op[2] + shift, None if op[3] is None else op[3] + shift)
            if len(op) > 3:
                return (op[0], op[1], None if op[2] is None else op[2] + shift, None if op[3] is None else op[3] + shift)
            return (op[0], op[1], None if op[2] is None else op[2] + shift)
        reset = (ctx.rng.choice(("clear", "clear_edges")),)
        resets = [reset] * ctx.rng.choice((1, 1, 2, 3))         # emptied once, or several times in a row
        full = list(prog) + resets + [sh(op) for op in prog]
        _case(ctx, "RESET", directed, full, families=fam)
        ctx.cell("reset:" + reset[0])
        G = drv.new_graph(dn, directed, True)
        m = Model(directed, True)
        ok = True
        for i, op in enumerate(full):
            ok, _ = drv.step(ctx, dn, G, m, op)
            if not ok:
                break
            if i == len(prog) - 1:
                guarded(ctx, "reset:first-life", audit, ctx, dn, G, m)
        if ok:
            guarded(ctx, "reset:second-life", audit, ctx, dn, G, m)
            if m.nontrivial():
                ctx.nontrivial("reset", m.state_key(), reset[0])


def long_timelines(ctx, dn, audit, n=1):
    """LONG: few pairs, one with 9-16 separate runs; audited a few times along the way and at the end"""
    for _ in range(n):
        directed = ctx.rng.random() < 0.5
        prog = gen.long_timeline_program(ctx.rng, directed)
        _case(ctx, "LONG", directed, prog)
        ctx.cell("long-timeline")
        run_program(ctx, dn, prog, directed, audit, every=7)


def long_second_life(ctx, dn, audit, runs=70):
    """one pair with `runs` separate runs, inspected, emptied, refilled unobserved with as many runs at other
    instants, inspected again (indices kept per pair and validated by their length)"""
    from .. import driver as drv
    directed = ctx.rng.random() < 0.5
    G = drv.new_graph(dn, directed, True)
    m = Model(directed, True)
    prog = []
    for life, base in ((0, 0), (1, 1)):
        t = base
        for _ in range(runs):
            ln = ctx.rng.choice((1, 2))
            op = ("add", 0, 1, t, t + ln)
            prog.append(op)
            t += ln + 2
        if life == 0:
            prog.append((ctx.rng.choice(("clear", "clear_edges")),))
    _case(ctx, "LONG-RESET", directed, prog)
    ctx.cell("long-second-life")
    for i, op in enumerate(prog):
        ok, _ = drv.step(ctx, dn, G, m, op)
        if not ok:
            return
        if i == runs - 1:
            guarded(ctx, "long-reset:first-life", audit, ctx, dn, G, m)
    guarded(ctx, "long-reset:second-life", audit, ctx, dn, G, m)


def around_zero(ctx, dn, audit, max_len):
    """EX0: every history over one pair with t in -3..1 (runs ending at -1, spans across 0), both classes"""
    alpha = []
    for t in range(-3, 2):
        for sp in (None, 1, 2, 3):
            alpha.append(("add", 0, 1, t, None if sp is None else t + sp))
    for directed in (False, True):
        for prog in gen.enumerate_histories(alpha, max_len, ctx.shard, ctx.nshards):
            _case(ctx, "EX0", directed, prog)
            run_program(ctx, dn, prog, directed, audit, every=0)
    ctx.cell("ex:around-zero")


def bulk_load(ctx, dn, audit):
    """an empty graph filled by ONE sized bunch of 1200 pairs over 60 nodes (repeated pairs, both endpoint orders,
    self-loops), then a few ordinary calls"""
    rng = ctx.rng
    directed = rng.random() < 0.5
    nodes = list(range(60))
    pairs = [(rng.choice(nodes), rng.choice(nodes)) for _ in range(1200)]
    t = rng.randint(0, 5)
    prog = [("addfrom", pairs, t, rng.choice((None, t + 2)))]
    for _ in range(3):
        u, v = rng.choice(pairs)
        prog.append(("add", v if not directed and rng.random() < 0.5 else u, u if not directed and rng.random() < 0.5 else v,
                     t + rng.randint(3, 6), None))
    directed = ctx.shard % 4 == 2          # shards 0, 4, ...: undirected; 2, 6, ...: directed
    _case(ctx, "BULK-LOAD", directed, prog)
    ctx.cell("bulk-load(1200 pairs)")
    from .. import driver as drv
    G = drv.new_graph(dn, directed, True)
    m = Model(directed, True)
    for op in prog:
        ok, _r = drv.step(ctx, dn, G, m, op)       # the bunch is handed over as one sized list
        if not ok:
            return
        guarded(ctx, "bulk-load", audit, ctx, dn, G, m)
