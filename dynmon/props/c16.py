"""C16 - directed/undirected conversion preserves presence and isolates the copy."""
from .. import audit, driver, gen, observe
from ..guard import guarded, raised_in_library
from ..model import Model

LEVEL = "exploration"
SHARDS = {"quick": 8, "thorough": 16}
BUDGET = {"quick": 22, "thorough": 240}
RULE = ("random removal-enabled source graphs (reciprocal pairs with disjoint/overlapping/nested timelines, "
        "timestamps straddling multiples of 8, self-loops, isolated nodes, node and graph attributes with nested "
        "mutable values; EX = all digraphs on 2 nodes with each of the 4 ordered pairs present on a subset of "
        "{0,1,2} built in both insertion orders). DynDiGraph: to_undirected() and to_undirected(reciprocal=True) "
        "(orderable ids); DynGraph: to_directed(). Oracle: result class; result audited with the full C01-C05 "
        "battery against the model union / intersection / both-orientations of the source model; every node kept; "
        "attributes equal; snapshot(source) unchanged by the conversion; mutating nested attribute values of the "
        "result leaves snapshot(source) unchanged and vice versa, and so do later add_interaction calls (prolonging "
        "existing intervals, adding pairs) on either graph. distinct = distinct (source model state, "
        "conversion).")
MIN = {"quick": {"conv:has_interaction(u,v,t)": 50000, "conv:source-unchanged": 1500, "conv:isolation": 1500, "conv:isolation(structure)": 1500},
       "thorough": {"conv:has_interaction(u,v,t)": 1000000, "conv:source-unchanged": 60000, "conv:isolation": 60000, "conv:isolation(structure)": 60000}}
REQUIRED_CELLS = {t: ("conv:to_undirected", "conv:to_undirected(reciprocal)", "conv:to_directed",
                      "src:reciprocal-overlapping", "src:reciprocal-disjoint", "src:self-loop", "src:isolated",
                      "form:positional-flag", "attr:non-string-key")
                  for t in ("quick", "thorough")}


class Box(object):
    """an attribute value that is hashable (by identity) but mutable"""

    def __init__(self, payload):
        self.payload = payload

    def __eq__(self, other):
        return isinstance(other, Box) and self.payload == other.payload

    __hash__ = object.__hash__

    def __repr__(self):
        return "Box(%r)" % (self.payload,)


def und_model(m, reciprocal):
    h = Model(False, True)
    for n, a in m.nodes.items():
        h.nodes[n] = dict(a)
    for (u, v), s in m.P.items():
        k = frozenset((u, v))
        if reciprocal:
            s = s & m.P.get((v, u), set())
        if not s:
            continue
        if k not in h.P:
            h.P[k] = set()
            h.orient[k] = (u, v)
        h.P[k] |= s
        h.first[k] = min(h.P[k])
    h.graph = dict(m.graph)
    return h


def dir_model(m, order, single):
    """both orientations of every undirected pair; single=True is the deviant model of known finding
    to_directed-single-orientation (only first-iterated endpoint -> other)"""
    h = Model(True, True)
    for n, a in m.nodes.items():
        h.nodes[n] = dict(a)
    pos = {n: i for i, n in enumerate(order)}
    for k, s in m.P.items():
        if not s:
            continue
        u, v = m.orient[k]
        if pos[v] < pos[u]:
            u, v = v, u
        for (x, y) in ((u, v),) if (single or u == v) else ((u, v), (v, u)):
            h.P[(x, y)] = set(s)
            h.orient[(x, y)] = (x, y)
            h.first[(x, y)] = min(s)
    h.graph = dict(m.graph)
    return h


def presence_matches(H, h, ts):
    nodes = list(h.nodes)
    for u in nodes:
        for v in nodes:
            k = h.key(u, v)
            if H.has_interaction(u, v) != (k in h.P):
                return False
            for t in ts:
                if H.has_interaction(u, v, t) != h.present(k, t):
                    return False
    return True


def check_conv(ctx, dn, G, m, name, make, hmodel, alt=None):
    detail = dict(conversion=name)
    ctx.case["conversion"] = name
    before = observe.snapshot(G)
    try:
        H = make()
    except Exception as ex:
        if raised_in_library(ex):
            ctx.violation("conv:raised", dict(detail, exception=repr(ex)))
            return
        raise
    ctx.cell("conv:" + name)
    want = dn.DynGraph if name.startswith("to_undirected") else dn.DynDiGraph
    ctx.expect("conv:class", type(H) is want, True, detail)
    ctx.expect("conv:source-unchanged", observe.diff(before, observe.snapshot(G)), [], detail)
    h = hmodel
    if alt is not None:
        key, hdev = alt
        ts = h.window(1)
        if not presence_matches(H, h, ts) and hdev.P != h.P and presence_matches(H, hdev, ts):
            ctx.count("conv:presence")
            ctx.finding("conv:presence", "known:" + key, dict(detail, note="presence equals the deviant model exactly"))
            h = hdev
    guarded(ctx, "conv:audit", audit.audit_all, ctx, dn, H, h, "conv:")
    # attribute-less nodes of the result do not share one attribute dict
    bare = [n for n, d in H.nodes(data=True) if not d]
    if len(bare) >= 2:
        try:
            H.add_node(bare[0], probe="x")
            others = {repr(n): dict(H.nodes(data=True))[n] for n in bare[1:]}
            ctx.expect("conv:nodes-have-own-attr-dicts", [k for k, v in others.items() if v], [], detail)
        finally:
            dict(H.nodes(data=True))[bare[0]].pop("probe", None)
    # every node kept, attributes equal
    ctx.expect("conv:nodes", (len(H.nodes()), dict(H.nodes(data=True))), (len(m.nodes), m.nodes), detail)
    ctx.expect("conv:graph-attrs", dict(H.graph), dict(m.graph), detail)
    # isolation of the copy: mutate nested values on one side, the other side must not move
    sG, sH = observe.snapshot(G), observe.snapshot(H)
    for n, d in H.nodes(data=True):
        for kk, val in list(d.items()):
            mutate_deep(val)
        d["new-key"] = 1
    for kk, val in list(H.graph.items()):
        mutate_deep(val)
    H.graph["new-key"] = 1
    ctx.expect("conv:isolation", observe.diff(sG, observe.snapshot(G)), [], dict(detail, mutated="result"))
    sH = observe.snapshot(H)
    for n, d in G.nodes(data=True):
        for kk, val in d.items():
            if isinstance(val, list):
                val.append("src-mutated")
            if isinstance(val, dict):
                val["src-mutated"] = 1
    for kk, val in G.graph.items():
        if isinstance(val, list):
            val.append("src-mutated")
    ctx.expect("conv:isolation", observe.diff(sH, observe.snapshot(H)), [], dict(detail, mutated="source"))
    # structural isolation: later timed updates of one graph must not reach the other (shared timeline lists)
    sG = observe.snapshot(G)
    grow(ctx, H)
    ctx.expect("conv:isolation(structure)", observe.diff(sG, observe.snapshot(G)), [],
               dict(detail, mutated="result, by add_interaction"))
    sH = observe.snapshot(H)
    grow(ctx, G)
    ctx.expect("conv:isolation(structure)", observe.diff(sH, observe.snapshot(H)), [],
               dict(detail, mutated="source, by add_interaction"))
    ctx.nontrivial(m.state_key(), name)


def mutate_deep(val):
    """change, in place, every mutable container reachable from val (also through tuples)"""
    if isinstance(val, list):
        for x in val:
            mutate_deep(x)
        val.append("mutated")
    elif isinstance(val, dict):
        for x in list(val.values()):
            mutate_deep(x)
        val["mutated"] = 1
    elif isinstance(val, tuple):
        for x in val:
            mutate_deep(x)
    elif isinstance(val, Box):
        mutate_deep(val.payload)


def grow(ctx, X):
    """legal timed updates on X: prolong the latest interval of up to three existing pairs (in place, by
    overlap and by adjacency) and add a brand-new pair"""
    lst = X.out_interactions() if X.is_directed() else X.interactions()
    ctx.rng.shuffle(lst)
    for i, (u, v, d) in enumerate(lst[:3]):
        a, b = d["t"][-1]
        if i % 2 == 0:
            X.add_interaction(u, v, b, b + 3)      # overlapping extension of the latest interval
        else:
            X.add_interaction(u, v, b + 1)         # adjacent extension
    ids = X.temporal_snapshots_ids()
    X.add_interaction("grow-a", "grow-b", (ids[-1] if ids else 0) + 1)


def source(ctx, dn, prog, directed, fam=None):
    G, m, ok = driver.build_accepted(dn, prog, directed)
    if not ok or not m.nontrivial():
        ctx.skip("source graph not built")
        return None
    ctx.cases += 1
    ctx.case = dict(workload="CONV", directed=directed, program=prog, families=fam)
    return G, m


def decorate(ctx, dn, G, m):
    """attributes with nested mutable values, isolated node, graph attributes"""
    rng = ctx.rng
    n0 = next(iter(m.nodes))
    if rng.random() < 0.7:
        # an isolated node of the same id family (reciprocal=True compares ids)
        lonely = 9999 if isinstance(n0, int) else (99, "x") if isinstance(n0, tuple) else "lonely"
        G.add_node(lonely, tags=["x", ["y"]], info={"a": [1]})
        m.add_node(lonely, tags=["x", ["y"]], info={"a": [1]})
        ctx.cell("src:isolated")
    G.add_node(n0, hist=[1, 2, [3]], box=Box([1, 2]), palette=("rgb", [255, 0, 0], ({"w": 1},)))
    m.add_node(n0, hist=[1, 2, [3]], box=Box([1, 2]), palette=("rgb", [255, 0, 0], ({"w": 1},)))
    G.graph["gtuple"] = ("k", [1, 2])
    if rng.random() < 0.5:
        G.add_nodes_from([(n0, {7: ["non-string key"]})])
        m.nodes[n0][7] = ["non-string key"]
        ctx.cell("attr:non-string-key")
    G.graph["gbox"] = Box({"k": 1})
    G.graph["meta"] = {"k": [1, 2]}
    G.graph["lst"] = [1, [2]]
    m.graph = {"meta": {"k": [1, 2]}, "lst": [1, [2]], "gbox": Box({"k": 1}), "gtuple": ("k", [1, 2])}


def rebuild(ctx, dn, prog, directed):
    G, m, ok = driver.build_accepted(dn, prog, directed)
    return G, m


def convert_all(ctx, dn, prog, directed, orderable, fam=None):
    # every conversion gets a freshly built source (the isolation probe mutates attributes)
    r = source(ctx, dn, prog, directed, fam)
    if not r:
        return
    G, m = r
    S = m.static(None)
    if any(S.has_edge(n, n) for n in S):
        ctx.cell("src:self-loop")
    if directed:
        for (u, v) in m.P:
            if u != v and (v, u) in m.P and m.P[(u, v)] and m.P[(v, u)]:
                ctx.cell("src:reciprocal-overlapping" if m.P[(u, v)] & m.P[(v, u)] else "src:reciprocal-disjoint")
        decorate(ctx, dn, G, m)
        check_conv(ctx, dn, G, m, "to_undirected", lambda: G.to_undirected(), und_model(m, False))
        if orderable:
            G, m = rebuild(ctx, dn, prog, directed)
            decorate(ctx, dn, G, m)
            # keyword and positional form of the flag alternate
            pos = ctx.rng.random() < 0.4
            ctx.cell("form:positional-flag" if pos else "form:keyword-flag")
            check_conv(ctx, dn, G, m, "to_undirected(reciprocal)",
                       (lambda: G.to_undirected(True)) if pos else (lambda: G.to_undirected(reciprocal=True)),
                       und_model(m, True))
    else:
        decorate(ctx, dn, G, m)
        order = list(G.nodes())
        check_conv(ctx, dn, G, m, "to_directed", lambda: G.to_directed(), dir_model(m, order, False),
                   alt=("to_directed-single-orientation", dir_model(m, order, True)))


def run(ctx, dn):
    rng = ctx.rng
    quick = ctx.tier == "quick"
    # EX: all digraphs on 2 nodes, presence of each ordered pair a subset of {0,1,2} given as point adds
    pairs = ((0, 1), (1, 0), (0, 0), (1, 1))
    subsets = [s for s in range(8)]
    n = 0
    import itertools
    combos = list(itertools.product(subsets, repeat=4))
    rng2 = __import__("random").Random(ctx.seed)
    if quick:
        combos = rng2.sample(combos, 600)
    for i, combo in enumerate(combos):
        if i % ctx.nshards != ctx.shard:
            continue
        if ctx.time_left() < ctx.budget_s * 0.5:
            break
        prog = []
        order = list(range(4))
        if i % 2:
            order.reverse()
        for j in order:
            for t in range(3):
                if combo[j] >> t & 1:
                    prog.append(("add", pairs[j][0], pairs[j][1], t, None))
        if not prog:
            continue
        convert_all(ctx, dn, prog, True, True)
        und = [op for op in prog]
        convert_all(ctx, dn, und, False, True)
        n += 1
    ctx.notes["ex_graphs"] = n
    ctx.sample(ctx.case)
    k = 0
    while ctx.time_left() > 1:
        directed = rng.random() < 0.6
        family = rng.choice(("int", "str", "negint", "tuple", "mixed", "str_"))
        prog, fam = gen.random_program(rng, lambda: Model(directed, True), directed=directed, family=family,
                                       tfamily=rng.choice(("small", "small", "neg")), with_nodes=False)
        convert_all(ctx, dn, prog, directed, family in ("int", "str", "negint", "str_", "tuple"), fam)
        if k < 3:
            ctx.sample(ctx.case)
        k += 1
