"""C06 - time_slice keeps exactly the presence inside the window, in a new graph."""
from .. import audit, driver, gen, observe
from ..guard import guarded, raised_in_library
from ..model import Model, runs

LEVEL = "exploration"
SHARDS = {"quick": 8, "thorough": 16}
BUDGET = {"quick": 22, "thorough": 240}
RULE = ("random removal-enabled graphs of both classes (reciprocal directed pairs, self-loops, multi-run "
        "timelines, attributed and isolated nodes) built by accepted histories; windows = for a run [x,y] of some "
        "pair every Allen placement of [a,b] against it (13 relations), windows missing everything, single-instant "
        "form, plus (EX) every window 0<=a<=b<=7 on the graphs of a small universe. For H=G.time_slice(a,b) / "
        "dn.time_slice: type(H) is type(G); H audited with the full C01-C05 battery against the model P|[a,b] "
        "(nodes = endpoints of surviving interactions with G's attributes); snapshot(G) unchanged; "
        "slice-of-slice vs slice by the intersection; later add_interaction calls on the slice leave the source "
        "unchanged and vice versa; b<a raises ValueError. distinct = distinct (model state, "
        "window).")
MIN = {"quick": {"slice:has_interaction(u,v,t)": 50000, "slice:type": 3000, "slice:G-unchanged": 3000,
                 "slice2:": 3000, "slice:invalid-window": 300, "slice:independent": 1000},
       "thorough": {"slice:has_interaction(u,v,t)": 1000000, "slice:type": 60000, "slice:G-unchanged": 60000,
                    "slice2:": 60000, "slice:invalid-window": 6000, "slice:independent": 20000}}
ALLEN = ("before", "meets", "overlaps", "starts", "during", "finishes", "equals", "finished-by", "contains",
         "started-by", "overlapped-by", "met-by", "after")
REQUIRED_CELLS = {t: tuple("allen:" + a for a in ALLEN) + ("class:DynGraph", "class:DynDiGraph", "form:dn.",
                                                           "form:single-instant", "window:misses-everything", "src:long-timeline", "window:ends-at-0", "window:bool-bounds")
                  for t in ("quick", "thorough")}


def allen_window(rng, run, rel):
    """a window [a,b] standing in Allen relation `rel` to run [x,y] (None if impossible)"""
    x, y = run
    r = rng.randint
    if rel == "before":
        b = x - r(2, 3)
        return b - r(0, 2), b
    if rel == "meets":
        return x - 1 - r(0, 2), x - 1
    if rel == "overlaps":
        if y == x:
            return None
        return x - r(1, 2), r(x, y - 1)
    if rel == "starts":
        if y == x:
            return None
        return x, r(x, y - 1)
    if rel == "during":
        if y - x < 2:
            return None
        a = r(x + 1, y - 1)
        return a, r(a, y - 1)
    if rel == "finishes":
        if y == x:
            return None
        return r(x + 1, y), y
    if rel == "equals":
        return x, y
    if rel == "finished-by":
        return x - r(1, 2), y
    if rel == "contains":
        return x - r(1, 2), y + r(1, 2)
    if rel == "started-by":
        return x, y + r(1, 2)
    if rel == "overlapped-by":
        if y == x:
            return None
        return r(x + 1, y), y + r(1, 2)
    if rel == "met-by":
        return y + 1, y + 1 + r(0, 2)
    if rel == "after":
        a = y + r(2, 3)
        return a, a + r(0, 2)


def slice_model(m, a, b):
    h = Model(m.directed, True)
    for k, s in m.P.items():
        keep = set(t for t in s if a <= t <= b)
        if keep:
            u, v = m.orient[k]
            h.P[k] = keep
            h.orient[k] = (u, v)
            h.first[k] = min(keep)
            for n in (u, v):
                h.nodes[n] = dict(m.nodes[n])
    return h


def check_slice(ctx, dn, G, m, a, b, form):
    detail = dict(window=(a, b), form=form)
    before = observe.snapshot(G)
    try:
        if form == "dn.":
            H = dn.time_slice(G, a, b)
        elif form == "single-instant":
            H = G.time_slice(a)
            b = a
        else:
            H = G.time_slice(a, b)
    except Exception as ex:
        if raised_in_library(ex):
            ctx.violation("slice:raised", dict(detail, exception=repr(ex)))
            return None
        raise
    ctx.cell("form:" + form)
    ctx.expect("slice:type", type(H) is type(G), True, detail)
    ctx.expect("slice:G-unchanged", observe.diff(before, observe.snapshot(G)), [], detail)
    h = slice_model(m, a, b)
    if not h.P:
        ctx.cell("window:misses-everything")
    ctx.case["window"] = (a, b)
    ctx.expect("slice:new-object", H is not G, True, detail)
    guarded(ctx, "slice:audit", audit.audit_all, ctx, dn, H, h, "slice:")
    ctx.nontrivial(m.state_key(), a, b)
    return H, h


def independent(ctx, dn, G, m, a, b):
    """'in a new graph': timed updates of a slice never reach the source and vice versa"""
    from .c16 import grow
    H = G.time_slice(a, b)
    sG = observe.snapshot(G)
    grow(ctx, H)
    ctx.expect("slice:independent", observe.diff(sG, observe.snapshot(G)), [], dict(window=(a, b), mutated="slice"))
    H = G.time_slice(a, b)
    sH = observe.snapshot(H)
    G2, _, _ = driver.build_accepted(dn, ctx.case["program"], m.directed)
    H2 = G2.time_slice(a, b)
    grow(ctx, G2)
    d = [k for k in observe.diff(observe.snapshot(H), observe.snapshot(H2))]
    ctx.expect("slice:independent", d, [], dict(window=(a, b), mutated="source"))


def one_graph(ctx, dn, G, m, windows):
    rng = ctx.rng
    ctx.cell("class:" + ("DynDiGraph" if m.directed else "DynGraph"))
    for (a, b, form) in windows:
        r = check_slice(ctx, dn, G, m, a, b, form)
        if not r:
            continue
        H, h = r
        if form == "single-instant":
            b = a
        # slicing a slice == slicing by the intersection
        c = a + rng.randint(-2, 2)
        d = max(c, b + rng.randint(-2, 2))
        lo, hi = max(a, c), min(b, d)
        try:
            H2 = H.time_slice(c, d)
        except Exception as ex:
            if raised_in_library(ex):
                ctx.violation("slice2:raised", dict(window=(a, b), second=(c, d), exception=repr(ex)))
                continue
            raise
        h2 = slice_model(m, lo, hi) if lo <= hi else Model(m.directed, True)
        ctx.case["second_window"] = (c, d)
        guarded(ctx, "slice2:audit", audit.audit_all, ctx, dn, H2, h2, "slice2:", ("C01", "C03", "C04", "C05"))
        ctx.expect("slice2:nodes", (len(H2.nodes()), dict(H2.nodes(data=True))), (len(h2.nodes), h2.nodes),
                   dict(window=(a, b), second=(c, d)))
        ctx.case.pop("second_window", None)
    if windows:
        w = windows[0]
        guarded(ctx, "slice:independent", independent, ctx, dn, G, m, w[0], w[1] if w[1] is not None else w[0])
        ids_ = m.ids()
        # a window strictly containing every run (runs copied whole are the ones that could be shared)
        guarded(ctx, "slice:independent", independent, ctx, dn, G, m, ids_[0] - 1, ids_[-1] + 1)
    # invalid window
    ids = m.ids()
    a = rng.choice(ids)
    for G_call in ((lambda: G.time_slice(a, a - 1)), (lambda: dn.time_slice(G, a + 3, a))):
        got = None
        try:
            G_call()
        except Exception as ex:
            got = type(ex).__name__
        ctx.expect("slice:invalid-window", got, "ValueError", dict(a=a))


def run(ctx, dn):
    rng = ctx.rng
    quick = ctx.tier == "quick"
    # EX: all windows 0<=a<=b<=7 on small-universe graphs
    alpha = [("add", u, v, t, None if s is None else t + s)
             for (u, v) in ((0, 1), (1, 0), (1, 1)) for t in (1, 3, 5) for s in (None, 2)]
    n = 0
    for directed in (False, True):
        for prog in gen.enumerate_histories(alpha, 2, ctx.shard, ctx.nshards):
            if ctx.time_left() < ctx.budget_s * 0.55:
                break
            G, m, ok = driver.build_accepted(dn, prog, directed)
            if not ok or not m.nontrivial():
                continue
            ctx.cases += 1
            ctx.case = dict(workload="EX-WINDOWS", directed=directed, program=prog)
            ws = [(a, b, "method") for a in range(0, 8) for b in range(a, 8)]
            if quick:
                ws = rng.sample(ws, 12)
            one_graph(ctx, dn, G, m, ws)
            n += 1
    ctx.notes["ex_graphs"] = n
    ctx.sample(ctx.case)
    k = 0
    while ctx.time_left() > 1:
        directed = rng.random() < 0.5
        if k % 12 == 5:
            prog, fam = gen.long_timeline_program(rng, directed, nruns=rng.choice((None, (33, 45)))), \
                dict(long_timeline=True)
            ctx.cell("src:long-timeline")
        else:
            prog, fam = gen.random_program(rng, lambda: Model(directed, True), directed=directed)
        G, m, ok = driver.build_accepted(dn, prog, directed)
        if not ok or not m.nontrivial():
            ctx.skip("graph not built")
            k += 1
            continue
        ctx.cases += 1
        ctx.case = dict(workload="ALLEN", directed=directed, program=prog, families=fam)
        ws = []
        key = rng.choice([x for x in m.P if m.P[x]])
        rr = runs(m.P[key])
        for rel in rng.sample(ALLEN, 5):
            w = allen_window(rng, rng.choice(rr), rel)
            if w:
                ctx.cell("allen:" + rel)
                ws.append((w[0], w[1], rng.choice(("method", "method", "dn."))))
        ids = m.ids()
        if ids[0] < 0 <= ids[-1]:
            ws.append((ids[0], 0, rng.choice(("method", "dn."))))        # an upper bound that happens to be falsy
            ctx.cell("window:ends-at-0")
        if 0 in ids or 1 in ids:
            ws.append((False, True, "method"))                             # False/True are the instants 0/1
            ctx.cell("window:bool-bounds")
        ws.append((ids[-1] + 3, ids[-1] + 5, "method"))
        ws.append((rng.choice(ids), None, "single-instant"))
        one_graph(ctx, dn, G, m, ws)
        if k < 3:
            ctx.sample(ctx.case)
        k += 1
