"""Workload generators (DESIGN.md 3.4).  Everything is a deterministic function of ctx.rng.

A *program* is a list of ops (plain tuples, JSON-friendly for replays):

  ("add", u, v, t, e)                      G.add_interaction(u, v, t, e)
  ("addfrom", [(u, v), ...], t, e)         G.add_interactions_from(ebunch, t, e)
  ("path"|"star"|"cycle", [n...], t)       G.add_path(...) etc. (method form)
  ("dn.path"|"dn.star"|"dn.cycle", [n...], t, e)   dn.add_path(G, ..., t, e=e) (functional form)
  ("node", n, attrs)                       G.add_node(n, **attrs)
"""
from .model import runs

class Obj(object):
    """a node id that hashes by identity (plain application object)"""
    __slots__ = ("label",)

    def __init__(self, label):
        self.label = label

    def __repr__(self):
        return "Obj(%r)" % (self.label,)


RP_CLASSES = ("before", "gap", "adjacent", "overlap", "overlap@start", "contained",
              "contained@end", "duplicate")


# ------------------------------------------------------------------ node / time families
def node_family(rng, n, family=None):
    fams = ("int", "int", "int", "negint", "str", "str_", "tuple", "frozenset", "mixed", "eqkeys", "objects",
            "special")
    family = family or rng.choice(fams)
    if family == "int":
        base = rng.choice((0, 1, 10))
        ids = [base + i for i in range(n)]
    elif family == "negint":
        ids = [-(i + 1) for i in range(n)]
    elif family == "str":
        ids = ["n%d" % i for i in range(n)]
    elif family == "str_":
        ids = ["a_%d" % i for i in range(n)]
    elif family == "tuple":
        ids = [(i, "x") for i in range(n)]
    elif family == "frozenset":
        ids = [frozenset((i, i + 100)) for i in range(n)]
    elif family == "mixed":
        pool = [0, "0", (0,), frozenset((0,)), "", "b_1", 2.5, -1]
        ids = pool[:n]
    elif family == "special":
        # strings with characters that matter to formatting / comment handling somewhere
        pool = ["cpu>90%", "%s", "a#b", "100%d", "{}", "x\\y", "BZhang", "%(u)s"]
        ids = pool[:n]
    elif family == "objects":
        ids = [Obj(i) for i in range(n)]
    elif family == "eqkeys":
        # 1 == 1.0 == True hash alike: the library must treat them as ONE node
        pool = [1, 2, 3, 4, 5, 6, 7, 8]
        ids = pool[:n]
    else:
        raise ValueError(family)
    rng.shuffle(ids)
    return family, ids


def alias(rng, family, n):
    """for the eqkeys family, sometimes pass an equal-but-distinct key"""
    if family == "eqkeys" and isinstance(n, int) and rng.random() < 0.3:
        return float(n) if n != 1 or rng.random() < 0.5 else True
    return n


def time_family(rng, family=None):
    family = family or rng.choice(("small", "small", "small", "neg", "big", "small", "neg", "big", "numpy", "huge"))
    if family == "huge":
        # beyond 2**53 (nanosecond epochs): neighbouring instants are not distinguishable as floats
        return family, 2 ** 60 + rng.randint(0, 1000), rng.choice((6, 12))
    if family == "numpy":
        # integer timestamps that are not python ints (values taken from arrays / data frames)
        import numpy as np
        return family, np.int64(rng.choice((0, -5))), rng.choice((6, 12))
    if family == "small":
        return family, 0, rng.choice((6, 9, 14))
    if family == "neg":
        return family, -8, 16
    return family, 10 ** 12, 12


# ------------------------------------------------------------------ relative-position spans
def rp_span(rng, latest, cls, kind):
    """a span in relative position `cls` to the latest run [a,b]; kind 'point'|'interval'.
    Returns (t, e) or None when the combination does not exist."""
    a, b = latest
    if kind == "point":
        if cls == "before":
            return a - rng.randint(1, 3), None
        if cls == "gap":
            return b + rng.randint(2, 4), None
        if cls == "adjacent":
            return b + 1, None
        if cls == "contained":
            return (rng.randint(a, b - 1), None) if b > a else None
        if cls == "contained@end":
            return (b, None) if b > a else None
        if cls == "duplicate":
            return (a, None) if a == b else None
        return None
    # interval [t, end], e = end + 1
    if cls == "before":
        t = a - rng.randint(1, 3)
        end = t + rng.randint(0, b - t + 2)
        return t, end + 1
    if cls == "gap":
        t = b + rng.randint(2, 4)
        return t, t + rng.randint(0, 3) + 1
    if cls == "adjacent":
        return b + 1, b + 1 + rng.randint(0, 3) + 1
    if cls == "overlap":
        if b == a:
            return None
        t = rng.randint(a + 1, b)
        return t, b + rng.randint(1, 3) + 1
    if cls == "overlap@start":
        return a, b + rng.randint(1, 3) + 1
    if cls == "contained":
        if b == a:
            return None
        t = rng.randint(a, b - 1)
        end = rng.randint(t, b - 1)
        return t, end + 1
    if cls == "contained@end":
        if b == a:
            return None
        return rng.randint(a + 1, b), b + 1
    if cls == "duplicate":
        return a, b + 1
    return None


def classify(latest, t, e):
    """relative-position class of span (t,e) w.r.t. the latest run (for coverage cells)"""
    a, b = latest
    end = t if e is None else e - 1
    if t < a:
        return "before"
    if t >= b + 2:
        return "gap"
    if t == b + 1:
        return "adjacent"
    if end > b:
        return "overlap@start" if t == a else "overlap"
    if t == a and end == b:
        return "duplicate"
    if end == b:
        return "contained@end"
    return "contained"


# ------------------------------------------------------------------ random histories
def random_program(rng, model_factory, n_ops=None, directed=False, family=None, tfamily=None,
                   bulk=True, with_nodes=True, p_reject=0.07, p_none=0.02, max_nodes=5, p_big=0.06,
                   clears=False):
    """Random history biased towards every relative-position class.  A throw-away model (built
    by model_factory) is advanced alongside so that spans can be placed relative to the state."""
    m = model_factory()
    big = n_ops is None and rng.random() < p_big
    if big:
        # a minority of larger cases: more nodes, longer histories, wider time range (size-dependent defects)
        n_nodes = rng.randint(8, 14)
        family = family if family in ("int", "negint", "str", "str_", "tuple", "frozenset") else \
            rng.choice(("int", "negint", "str", "tuple"))
        fam, ids = node_family(rng, n_nodes, family)
        tfam, t0, tw = time_family(rng, tfamily)
        tw = tw * 4
        n_ops = rng.randint(25, 70)
    else:
        n_nodes = rng.randint(2, max_nodes)
        fam, ids = node_family(rng, n_nodes, family)
        tfam, t0, tw = time_family(rng, tfamily)
        n_ops = n_ops or rng.randint(1, 14)
    prog = []
    if with_nodes and rng.random() < 0.3:
        prog.append(("node", "iso", {"label": [1, {"x": 2}], "w": 3}))
    if with_nodes and rng.random() < 0.3:
        prog.append(("node", ids[0], {"color": "red", "tags": ["a", "b"]}))
    if with_nodes and rng.random() < 0.15:
        # attribute names that coincide with parameter names used inside the library
        prog.append(("node", ids[-1], {"n": 3, "t": [1], "u": "x", "data": {"k": 1}}))
    if with_nodes and rng.random() < 0.1:
        prog.append(("nodes_from", [(ids[0], {7: "non-string key", "w": 1})]))
    pairs = []
    for _ in range(n_ops):
        r = rng.random()
        if clears and rng.random() < 0.025 and prog:
            op = (rng.choice(("clear", "clear_edges")),)
            prog.append(op)
            _advance(m, op)
            if op[0] == "clear":
                pairs = []
            continue
        if bulk and r < 0.12:
            # bulk helper at one instant
            k = rng.randint(2, min(4 if not big else 9, len(ids)))
            ns = rng.sample(ids, k)
            if rng.random() < 0.2:
                ns.append(ns[0])
            t = t0 + rng.randint(0, tw)
            kind = rng.choice(("path", "star", "cycle", "dn.path", "dn.star", "dn.cycle", "addfrom"))
            if rng.random() < 0.08:
                # a bunch that yields no pair (an empty star / cycle has no centre / closing node: not generated)
                ns = ns[:rng.choice((0, 1))] if kind in ("path", "dn.path") else ns[:1]
            last_bulk = [o for o in prog if o[0] in ("path", "star", "cycle")]
            if last_bulk and rng.random() < 0.3:
                # the caller re-uses the node list of an earlier helper call (same list object, see driver)
                ns = list(last_bulk[-1][1])
                kind = last_bulk[-1][0]
                t = max(t, last_bulk[-1][2]) + rng.randint(0, 2)
            if kind == "addfrom":
                e = None if rng.random() < 0.5 else t + rng.randint(1, 3)
                eb = [(ns[i], ns[i + 1]) for i in range(len(ns) - 1)]
                if rng.random() < 0.35:
                    # the documented 3-tuple form (u, v, d); d is interaction data and never a source of time
                    d = rng.choice(({}, {"w": 1}, {"t": [[0, 1]]}))
                    eb = [(a, b, dict(d)) for a, b in eb]
                op = ("addfrom", eb, t, e)
            elif kind.startswith("dn."):
                e = None if rng.random() < 0.6 else t + rng.randint(1, 3)
                op = (kind, ns, t, e)
            else:
                if directed and kind in ("star", "cycle"):
                    kind = "path"     # DynDiGraph only defines add_path as a method
                op = (kind, ns, t)
            prog.append(op)
            _advance(m, op)
            continue
        # single add
        if pairs and rng.random() < 0.7:
            u, v = rng.choice(pairs)
            if rng.random() < 0.3:
                u, v = v, u
        else:
            u = rng.choice(ids)
            v = rng.choice(ids) if rng.random() > 0.08 else u
        u, v = alias(rng, fam, u), alias(rng, fam, v)
        if rng.random() < p_none:
            op = ("add", u, v, None, rng.choice((None, 3)))
            prog.append(op)
            continue
        k = m.key(u, v)
        span = None
        if k in m.P and m.P[k]:
            latest = runs(m.P[k])[-1]
            for _try in range(4):
                cls = rng.choice(RP_CLASSES)
                if cls == "before" and rng.random() > p_reject * 4:
                    continue
                span = rp_span(rng, latest, cls, rng.choice(("point", "interval")))
                if span:
                    break
        if span is None:
            t = t0 + rng.randint(0, tw)
            e = None if rng.random() < 0.5 else t + rng.randint(1, 4)
            span = (t, e)
        op = ("add", u, v, span[0], span[1])
        prog.append(op)
        if (u, v) not in pairs:
            pairs.append((u, v))
        _advance(m, op)
    return prog, dict(nodes=fam, times=tfam, big=big)


def elements(op):
    """the add_interaction calls an op decomposes into: list of (u, v, t, e)"""
    kind = op[0]
    if kind == "add":
        return [(op[1], op[2], op[3], op[4])]
    if kind == "addfrom":
        return [(x[0], x[1], op[2], op[3]) for x in op[1]]
    if kind in ("path", "star", "cycle", "dn.path", "dn.star", "dn.cycle"):
        ns = list(op[1])
        t = op[2]
        e = op[3] if len(op) > 3 else None
        base = kind.split(".")[-1]
        if base == "path":
            eb = list(zip(ns[:-1], ns[1:]))
        elif base == "star":
            eb = [(ns[0], n) for n in ns[1:]]
        else:
            eb = list(zip(ns, ns[1:] + [ns[0]])) if ns else []
        return [(u, v, t, e) for u, v in eb]
    if kind in ("node", "nodes_from", "clear", "clear_edges"):
        return []
    raise ValueError(op)


def _advance(m, op):
    """advance a model over an op exactly as a correct library would"""
    if op[0] == "node":
        m.add_node(op[1], **op[2])
        return None
    if op[0] in ("clear", "clear_edges"):
        m.clear(edges_only=op[0] == "clear_edges")
        return None
    if op[0] == "nodes_from":
        for n, d in op[1]:
            m.nodes.setdefault(n, {}).update(d)
        return None
    els = elements(op)
    if op[0] != "add" and els and els[0][2] is None:
        return "NetworkXError"
    for u, v, t, e in els:
        vd = m.verdict(u, v, t, e)
        if vd:
            return vd
        m.apply(u, v, t, e)
    return None


advance = _advance


# ------------------------------------------------------------------ exhaustive universes
def all_single_pair_ops(tmax=4, spans=(None, 1, 2, 3), orders=True, loop=False):
    ops = []
    for t in range(tmax + 1):
        for s in spans:
            e = None if s is None else t + s
            ops.append(("add", 0, 0 if loop else 1, t, e))
            if orders and not loop:
                ops.append(("add", 1, 0, t, e))
    return ops


def two_pair_ops(tmax=3, spans=(None, 1, 2)):
    ops = []
    for (u, v) in ((0, 1), (1, 2), (1, 1), (1, 0)):
        for t in range(tmax + 1):
            for s in spans:
                ops.append(("add", u, v, t, None if s is None else t + s))
    return ops


def enumerate_histories(alphabet, max_len, shard=0, nshards=1):
    """all sequences over `alphabet` of length 1..max_len whose first-op index % nshards == shard
    (plus shorter prefixes), in DFS order"""
    n = len(alphabet)

    def rec(prefix, depth):
        if depth:
            yield prefix
        if depth == max_len:
            return
        for i in range(n):
            if depth == 0 and i % nshards != shard:
                continue
            for x in rec(prefix + [alphabet[i]], depth + 1):
                yield x
    return rec([], 0)


def long_timeline_program(rng, directed, ids=None, nruns=None):
    """few pairs, one of them with 9-16 separate runs (points and intervals): timelines long enough to reach
    any code path that treats long lists differently (search, caching, blocking)"""
    ids = ids or [0, 1, 2, 3]
    prog = []
    pairs = [(ids[0], ids[1]), (ids[1], ids[2])] + ([(ids[1], ids[0])] if directed else []) + [(ids[2], ids[3])]
    for pi, (u, v) in enumerate(pairs):
        t = rng.randint(-3, 2)
        lo, hi = nruns or (9, 16)
        k = rng.randint(lo, hi) if pi == 0 or rng.random() < 0.3 else rng.randint(1, 4)
        for _ in range(k):
            ln = rng.choice((1, 1, 2, 3, 4))
            a, b = (u, v) if directed or rng.random() < 0.7 else (v, u)
            prog.append(("add", a, b, t, None if ln == 1 and rng.random() < 0.6 else t + ln))
            t += ln + rng.randint(1, 3)
    # interleave the pairs while keeping each pair's order
    queues = {}
    for op in prog:
        queues.setdefault(frozenset((op[1], op[2])) if not directed else (op[1], op[2]), []).append(op)
    out = []
    keys = list(queues)
    while keys:
        k = rng.choice(keys)
        out.append(queues[k].pop(0))
        if not queues[k]:
            keys.remove(k)
    return out
