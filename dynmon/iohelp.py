"""Helpers for the file-format checks (C09, C10, C18): targets, configurations, decoding."""
import bz2
import gzip
import io
import os
import tempfile

from .model import Model

DELIMS = (None, ",", ";", "\t", "|")          # None = library default (' ' on write, any whitespace on read)
ENCODINGS = ("utf-8", "latin-1", "cp1252")
TARGETS = ("path.txt", "path.gz", "path.bz2", "path.gzip", "fileobj", "bytesio")


# documented defaults of the readers / writers: an argument that equals its default may be left out
READ_DEFAULTS = dict(comments="#", directed=False, delimiter=None, nodetype=None, encoding="utf-8", keys=False)
WRITE_DEFAULTS = dict(delimiter=" ", encoding="utf-8")


def drop_defaults(rng, kw, defaults, ctx=None, p=0.5):
    """leave out (each with probability p) the arguments whose value is the documented default; `nodetype=str`
    counts as the default when the file's ids are strings anyway (the reader yields strings)"""
    out = dict(kw)
    for k, v in list(out.items()):
        if k in defaults and (v is defaults[k] or v == defaults[k] and type(v) is type(defaults[k])) \
                and rng.random() < p:
            del out[k]
            if ctx is not None:
                ctx.cell("default-omitted:" + k)
    return out


def tmpdir():
    base = os.environ.get("DYNMON_TMP")
    return tempfile.mkdtemp(prefix="io-", dir=base if base and os.path.isdir(base) else None)


def opener(path):
    if path.endswith(".gz") or path.endswith(".gzip"):
        return gzip.open(path, "rb")
    if path.endswith(".bz2"):
        return bz2.BZ2File(path, "rb")
    return open(path, "rb")


class recording_opens(object):
    """Hook on the three ways a path can be opened (builtins.open, gzip.open, bz2.BZ2File): records every
    file object created while active, so that the caller can assert they were all closed again."""

    def __enter__(self):
        import builtins
        self.made = []
        self._b, self._g, self._z = builtins.open, gzip.open, bz2.BZ2File
        rec = self.made

        def wrap(fn):
            def opener(*a, **kw):
                f = fn(*a, **kw)
                rec.append(f)
                return f
            return opener
        builtins.open = wrap(self._b)
        gzip.open = wrap(self._g)

        class _BZ2(self._z):
            def __init__(inner, *a, **kw):
                super(_BZ2, inner).__init__(*a, **kw)
                rec.append(inner)
        bz2.BZ2File = _BZ2
        return self

    def __exit__(self, *exc):
        import builtins
        builtins.open, gzip.open, bz2.BZ2File = self._b, self._g, self._z
        return False

    def left_open(self):
        return [repr(f) for f in self.made if not f.closed]


class Target(object):
    """one write destination; .write(fn) calls fn(target_argument); .data() returns the bytes"""

    def __init__(self, kind, d):
        self.kind = kind
        self.dir = d
        self.path = None
        self.fobj = None
        self.closed_by_library = None
        self.opened = 0
        self.left_open = []

    def write(self, fn):
        if self.kind.startswith("path"):
            self.path = os.path.join(self.dir, "out" + self.kind[4:])
            if os.path.exists(self.path):
                os.remove(self.path)
            with recording_opens() as rec:
                fn(self.path)
            self.opened = len(rec.made)
            self.left_open = rec.left_open()
        elif self.kind == "fileobj":
            self.path = os.path.join(self.dir, "out.obj")
            self.fobj = open(self.path, "wb")
            fn(self.fobj)
            self.closed_by_library = self.fobj.closed
            if not self.fobj.closed:
                self.fobj.close()
        else:
            self.fobj = io.BytesIO()
            fn(self.fobj)
            self.closed_by_library = self.fobj.closed

    def data(self):
        if self.kind == "bytesio":
            return self.fobj.getvalue() if not self.fobj.closed else None
        with opener(self.path) as f:
            return f.read()

    def read_arg(self):
        """what to hand to a reader: the path, or a fresh binary file object"""
        if self.kind.startswith("path"):
            return self.path
        if self.kind == "fileobj":
            return open(self.path, "rb")
        return io.BytesIO(self.fobj.getvalue())


def rows_of(data, encoding, delim):
    """decode written bytes into rows of string fields"""
    text = data.decode(encoding)
    out = []
    lines = text.split("\n")
    trailing = lines[-1]
    for line in lines[:-1]:
        out.append(tuple(line.split(delim if delim is not None else " ")))
    return out, trailing


def ids_for(rng, kind, n):
    if kind == "int":
        return [i * 3 - 2 for i in range(n)]
    if kind == "str":
        return ["n%d" % i for i in range(n)]
    if kind == "magic":
        # ids whose first bytes look like the signature of a compressed file when they open the file
        return ["BZhang", "BZh91AY", "PK"][:n] + ["m%d" % i for i in range(max(0, n - 3))]
    if kind == "numstr":
        # strings that look like numbers (read with nodetype=str right after int ids were read with nodetype=int)
        return ["%d" % (i * 3 - 2) for i in range(n)]
    if kind == "nonascii":
        pool = ["éa", "ß", "nñ", "über", "xç", "å"]
        return pool[:n]
    raise ValueError(kind)


def retype(m, conv=lambda x: x, with_isolated=False):
    """model of the graph a reader should produce: same presence, nodes = endpoints only (files do not
    carry isolated nodes or attributes)"""
    h = Model(m.directed, True)
    for k, s in m.P.items():
        if not s:
            continue
        u, v = m.orient[k]
        u2, v2 = conv(u), conv(v)
        k2 = h.key(u2, v2)
        h.P[k2] = set(s)
        h.orient[k2] = (u2, v2)
        h.first[k2] = min(s)
        h.nodes.setdefault(u2, {})
        h.nodes.setdefault(v2, {})
    return h
