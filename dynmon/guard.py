"""Attribute an exception to the library or to the harness."""
import os
import traceback

from . import env

_HERE = os.path.dirname(os.path.realpath(__file__))


def raised_in_library(ex):
    """True when the innermost frame that is not in the standard library / site-packages belongs
    to the repository under test (so the library, not the harness, raised or let it escape)"""
    tb = traceback.extract_tb(ex.__traceback__)
    for fr in reversed(tb):
        fn = os.path.realpath(fr.filename)
        if fn.startswith(env.REPO + os.sep):
            return True
        if fn.startswith(_HERE + os.sep):
            return False
    return False


def guarded(ctx, name, fn, *a, **kw):
    """run an audit; an exception escaping from the library is a violation of the audited
    property, one from the harness is re-raised (=> inconclusive)"""
    try:
        return fn(*a, **kw)
    except Exception as ex:
        if raised_in_library(ex):
            ctx.violation("raised:" + name, dict(exception=type(ex).__name__, message=str(ex)[:300],
                                                 trace=traceback.format_exc()[-1200:]))
            return None
        raise
