"""Worker-side context: counters, findings, distinctness, samples (DESIGN.md 3.2, 3.6)."""
import hashlib
import json
import random
import struct
import time


def jsonable(x, depth=0):
    """best-effort conversion of arbitrary observations into JSON (for replays/samples)"""
    if depth > 8:
        return repr(x)
    if x is None or isinstance(x, (bool, int, float, str)):
        return x
    if isinstance(x, (list, tuple)):
        return [jsonable(i, depth + 1) for i in x]
    if isinstance(x, (set, frozenset)):
        return {"__set__": sorted((jsonable(i, depth + 1) for i in x), key=repr)}
    if isinstance(x, dict):
        return {repr(k) if not isinstance(k, str) else k: jsonable(v, depth + 1) for k, v in x.items()}
    return repr(x)


class Finding(dict):
    pass


class CaseTimeout(Exception):
    """a single case ran far beyond what its workload intends (e.g. an exponential path enumeration inside the
    library): the case is abandoned and counted as skipped - never a verdict"""


class case_deadline(object):
    """with case_deadline(ctx, seconds): ...   (wall-clock alarm around ONE case; main thread only)"""

    def __init__(self, ctx, seconds):
        self.ctx, self.seconds = ctx, seconds

    def _fire(self, signum, frame):
        raise CaseTimeout()

    def __enter__(self):
        import signal
        self._old = signal.signal(signal.SIGALRM, self._fire)
        signal.setitimer(signal.ITIMER_REAL, self.seconds)
        return self

    def __exit__(self, et, ev, tb):
        import signal
        signal.setitimer(signal.ITIMER_REAL, 0)
        signal.signal(signal.SIGALRM, self._old)
        if et is CaseTimeout:
            self.ctx.skip("case abandoned after %ds (library call did not return)" % self.seconds)
            return True
        return False


WALL_FACTOR = 4.0


class Ctx(object):
    """One per worker.  All generators draw from ctx.rng (seeded from VERIF_SEED, shard)."""

    MAX_FINDINGS_PER_SIG = 5

    def __init__(self, prop, tier, seed, shard, nshards, budget_s):
        self.prop = prop
        self.tier = tier
        self.seed = seed
        self.shard = shard
        self.nshards = nshards
        self.rng = random.Random("%s/%d/%d" % (prop, seed, shard))
        self.t0 = time.time()
        # budgets are CPU time of the worker, not wall-clock: on a loaded machine a worker takes longer but does
        # the same amount of work (the runner keeps a generous wall-clock watchdog whose firing is inconclusive)
        self.c0 = time.process_time()
        self.budget_s = budget_s
        self.counters = {}       # oracle name -> number of evaluations
        self.findings = []       # list of Finding
        self.sig_count = {}      # signature -> count (all, not only the stored ones)
        self.distinct = set()    # 64-bit hashes of non-trivial (state, op-class) cases
        self.samples = []
        self.cases = 0           # executions / inputs tried
        self.cells = {}          # coverage cells (e.g. relative-position classes)
        self.notes = {}
        self.skipped = {}
        self.case = None         # description of the case being executed (for replays)

    # --------------------------------------------------------------- budget
    def time_left(self):
        # CPU seconds left; on a machine so loaded (or with I/O so slow) that the CPU budget would take more than
        # WALL_FACTOR times as long in wall-clock time the shard stops there instead (it then reports less work:
        # the MIN thresholds decide whether that is still conclusive) - well before the runner's watchdog
        cpu = self.budget_s - (time.process_time() - self.c0)
        wall = self.budget_s * WALL_FACTOR - (time.time() - self.t0)
        return min(cpu, wall)

    def out_of_time(self):
        return self.time_left() <= 0

    # ------------------------------------------------------------- counting
    def count(self, oracle, n=1):
        self.counters[oracle] = self.counters.get(oracle, 0) + n

    def cell(self, name, n=1):
        self.cells[name] = self.cells.get(name, 0) + n

    def skip(self, why, n=1):
        self.skipped[why] = self.skipped.get(why, 0) + n

    def nontrivial(self, *key):
        h = hashlib.blake2b(repr(key).encode("utf-8", "backslashreplace"), digest_size=8).digest()
        self.distinct.add(struct.unpack("<Q", h)[0])

    def sample(self, case, cap=6):
        if len(self.samples) < cap:
            self.samples.append(jsonable(case))

    # ------------------------------------------------------------- findings
    def finding(self, oracle, signature, detail, prop=None):
        self.sig_count[signature] = self.sig_count.get(signature, 0) + 1
        if self.sig_count[signature] <= self.MAX_FINDINGS_PER_SIG:
            self.findings.append(Finding(
                property=prop or self.prop, oracle=oracle, signature=signature,
                detail=jsonable(detail), case=jsonable(self.case)))

    def expect(self, oracle, observed, correct, detail, deviants=None, eq=None, also=()):
        """Compare an observation with the model's expectation.

        `deviants` maps known-finding keys to the value that finding's deviant model predicts;
        an observation is classified under a key only if it equals that prediction exactly
        (and differs from the correct value).  Anything else is `unclassified:<oracle>`.
        Returns True when the observation is correct.
        """
        self.count(oracle)
        same = (observed == correct) if eq is None else eq(observed, correct)
        if same:
            return True
        for alt in also:     # other readings the statement allows (DESIGN.md 4)
            if (observed == alt) if eq is None else eq(observed, alt):
                return True
        if callable(deviants):
            deviants = deviants()
        if deviants:
            for key, val in deviants.items():
                if (observed == val) if eq is None else eq(observed, val):
                    self.finding(oracle, "known:" + key,
                                 dict(detail, observed=observed, expected=correct))
                    return False
        self.finding(oracle, "unclassified:" + oracle, dict(detail, observed=observed, expected=correct))
        return False

    def violation(self, oracle, detail, known=None):
        """an oracle failed without a comparable value; `known` = finding key if classified"""
        self.count(oracle, 0)
        sig = ("known:" + known) if known else ("unclassified:" + oracle)
        self.finding(oracle, sig, detail)

    # --------------------------------------------------------------- result
    def result(self):
        return dict(
            prop=self.prop, tier=self.tier, seed=self.seed, shard=self.shard,
            cases=self.cases, counters=self.counters, findings=self.findings,
            sig_count=self.sig_count, distinct=sorted(self.distinct), samples=self.samples,
            cells=self.cells, notes=self.notes, skipped=self.skipped,
            wall_s=round(time.time() - self.t0, 3), cpu_s=round(time.process_time() - self.c0, 3))


def dump_result(ctx, path, reach=None):
    with open(path + ".tmp", "w") as f:
        json.dump(dict(ctx.result(), reach=reach), f)
    import os
    os.replace(path + ".tmp", path)
