"""Reference semantics of time-respecting paths, written from the statements of C12/C13/C15
(independent of dynetx.algorithms.paths)."""
import networkx as nx

from .model import Model


class TooMany(Exception):
    pass


def window_ids(m, start, end):
    ids = m.ids()
    if not ids:
        return []
    lo = ids[0] if start is None else start
    hi = ids[-1] if end is None else end
    return [t for t in ids if lo <= t <= hi]


def nbrs(m, x, t):
    """neighbours of x at t (successors on directed graphs)"""
    out = []
    for k in m.P:
        if not m.present(k, t):
            continue
        a, b = m.orient[k]
        if m.directed:
            if a == x:
                out.append(b)
        else:
            if a == x:
                out.append(b)
            elif b == x:
                out.append(a)
    return out


def brute_paths(m, u, v=None, start=None, end=None, cap=20000):
    """every hop sequence satisfying the conditions of C12, as a set of tuples of (a, b, t)"""
    win = window_ids(m, start, end)
    cache = {}

    def nb(x, t):
        key = (x, t)
        if key not in cache:
            cache[key] = nbrs(m, x, t)
        return cache[key]
    found = set()
    count = [0]

    def record(p):
        count[0] += 1
        if count[0] > cap:
            raise TooMany()
        if v is None or p[-1][1] == v:
            found.add(tuple(p))

    def extend(p, node, arrived):
        for t in win:
            if t <= arrived:
                continue
            ns = nb(node, t)
            if not ns:
                return          # the occurrence expires at the first snapshot without an interaction
            for n in ns:
                if p[-1][0] == n and p[-1][1] == node:
                    continue    # immediate reversal of the previous hop
                q = p + [(node, n, t)]
                record(q)
                extend(q, n, t)
    for t in win:
        for n in nb(u, t):
            p = [(u, n, t)]
            record(p)
            extend(p, n, t)
    return found


def path_problems(m, path, u, v, start, end):
    """why `path` is not a genuine time-respecting path (empty list = it is one); C12"""
    probs = []
    ids = m.ids()
    lo = ids[0] if start is None else start
    hi = ids[-1] if end is None else end
    if not isinstance(path, tuple):
        probs.append("path is not a tuple")
    if len(path) == 0:
        return probs + ["empty path"]
    for h in path:
        if not (isinstance(h, tuple) and len(h) == 3):
            return probs + ["hop is not a 3-tuple"]
    if path[0][0] != u:
        probs.append("first hop does not leave u")
    if v is not None and path[-1][1] != v:
        probs.append("last hop does not reach v")
    prev = None
    for i, (a, b, t) in enumerate(path):
        if not (lo <= t <= hi):
            probs.append("hop %d outside the window" % i)
        if not m.present(m.key(a, b), t):
            probs.append("hop %d is not an interaction present at its time" % i)
        if prev is not None:
            pa, pb, pt = prev
            if pb != a:
                probs.append("hop %d does not chain" % i)
            if not t > pt:
                probs.append("hop %d does not advance in time" % i)
            if (a, b) == (pb, pa):
                probs.append("hop %d reverses the previous hop" % i)
            for s in ids:
                if pt < s < t and not nbrs(m, a, s):
                    probs.append("intermediate node idle at snapshot %r between hops %d and %d" % (s, i - 1, i))
                    break
        prev = (a, b, t)
    return probs


def split_occurrence(name):
    """'node_time' -> (node string, time string)"""
    s = str(name)
    i = s.rfind("_")
    return s[:i], s[i + 1:]
