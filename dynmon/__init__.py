"""dynmon - runtime monitors for DyNetx (see /verif/DESIGN.md)."""
