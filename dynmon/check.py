"""python -m dynmon.check <PROP> [--tier quick|thorough]   (cwd /verif)

Shards the property's workload over worker processes, merges what the monitors observed,
classifies findings against /verif/known_findings.txt, writes /verif/evidence/<PROP>.json and
sets the exit status:  0 held on everything explored / 1 VIOLATION / 2 INCONCLUSIVE.
"""
import argparse
import importlib
import json
import os
import shutil
import subprocess
import sys
import tempfile
import time

from . import env
from . import known

HASHSEEDS = ("0", "1", "7", "12345")


def run_workers(prop, tier, seed, mod, extra_env=None):
    n = mod.SHARDS[tier]
    n = max(1, min(n, (os.cpu_count() or 4)))
    # scratch space (worker results, the files the I/O checks write and read back): memory-backed when the
    # platform offers it, so that a busy disk cannot stretch the wall-clock time of a CPU-budgeted run
    shm = "/dev/shm"
    base = shm if os.path.isdir(shm) and os.access(shm, os.W_OK | os.X_OK) else None
    tmp = tempfile.mkdtemp(prefix="dynmon-%s-" % prop, dir=base)
    procs = []
    hs_fixed = os.environ.get("DYNMON_HASHSEED")
    try:
        for i in range(n):
            out = os.path.join(tmp, "shard%d.json" % i)
            e = dict(os.environ)
            e.update(PYTHONDONTWRITEBYTECODE="1", TQDM_DISABLE="1",
                     PYTHONPYCACHEPREFIX=os.path.join(tmp, "pyc"),
                     PYTHONHASHSEED=hs_fixed or HASHSEEDS[i % len(HASHSEEDS)],
                     PYTHONPATH=os.pathsep.join([env.VERIF, env.REPO]),
                     DYNMON="1", DYNMON_REPO=env.REPO, DYNMON_TMP=tmp)
            e.pop("PYTHONSTARTUP", None)
            if extra_env:
                e.update(extra_env)
            # worker output (progress bars of the library, warnings) goes to a file, never to a pipe that could
            # fill up and block the worker while the runner waits for another shard
            logf = open(os.path.join(tmp, "shard%d.log" % i), "wb")
            p = subprocess.Popen([sys.executable, "-m", "dynmon.worker", prop, tier, str(seed),
                                  str(i), str(n), out], env=e, cwd=env.VERIF,
                                 stdout=logf, stderr=subprocess.STDOUT)
            logf.close()
            procs.append((i, p, out, e["PYTHONHASHSEED"]))
        results, problems = [], []
        deadline = time.time() + mod.BUDGET[tier] * 6 + 180     # generous wall-clock watchdog (budgets are CPU time)
        for i, p, out, hs in procs:
            try:
                p.wait(timeout=max(1, deadline - time.time()))
            except subprocess.TimeoutExpired:
                p.kill()
                p.wait()
                problems.append("shard %d killed by the watchdog" % i)
                continue
            if not os.path.exists(out):
                try:
                    with open(os.path.join(tmp, "shard%d.log" % i), "rb") as lf:
                        so = lf.read()[-800:]
                except OSError:
                    so = b""
                problems.append("shard %d produced no result (exit %s): %s"
                                % (i, p.returncode, so.decode("utf-8", "replace")))
                continue
            with open(out) as f:
                r = json.load(f)
            r["hashseed"] = hs
            if "inconclusive" in r:
                problems.append("shard %d: %s" % (i, r["inconclusive"]))
                continue
            if r.get("notes", {}).get("harness_crash"):
                problems.append("shard %d harness crash: %s" % (i, r["notes"]["harness_crash"][-1500:]))
            results.append(r)
        return results, problems
    finally:
        shutil.rmtree(tmp, ignore_errors=True)


def anchored_files(prop):
    """library files the property is anchored in (properties.jsonl), relative to the package"""
    out = []
    try:
        with open(os.path.join(env.VERIF, "properties.jsonl")) as f:
            for line in f:
                d = json.loads(line)
                if d.get("id") == prop:
                    for fn in d.get("anchors", {}).get("files", []):
                        if fn.startswith("dynetx/"):
                            out.append(fn[len("dynetx/"):])
    except OSError:
        pass
    return out


def merge(results):
    agg = dict(cases=0, counters={}, sig_count={}, distinct=set(), samples=[], cells={}, skipped={},
               findings=[], notes={}, reach={}, reach_shards=0)
    for r in results:
        if r.get("reach"):
            agg["reach_shards"] += 1
            for f_, lines in r["reach"].items():
                agg["reach"].setdefault(f_, set()).update(lines)
        agg["cases"] += r["cases"]
        for k in ("counters", "sig_count", "cells", "skipped"):
            for a, b in r[k].items():
                agg[k][a] = agg[k].get(a, 0) + b
        agg["distinct"].update(r["distinct"])
        for s in r["samples"]:
            if len(agg["samples"]) < 8:
                agg["samples"].append(s)
        for f in r["findings"]:
            f["hashseed"] = r["hashseed"]
            f["shard"] = r["shard"]
            agg["findings"].append(f)
        for k, v in r.get("notes", {}).items():
            if k == "harness_crash":
                continue
            if isinstance(v, (int, float)):
                agg["notes"][k] = agg["notes"].get(k, 0) + v
            elif isinstance(v, dict):
                d = agg["notes"].setdefault(k, {})
                for a, b in v.items():
                    if isinstance(b, (int, float)):
                        d[a] = d.get(a, 0) + b
                    else:
                        d[a] = b
            else:
                agg["notes"][k] = v
    return agg


def main(argv=None):
    ap = argparse.ArgumentParser()
    ap.add_argument("prop")
    ap.add_argument("--tier", default=os.environ.get("VERIF_TIER") or "quick", choices=("quick", "thorough"))
    a = ap.parse_args(argv)
    prop = a.prop.upper()
    seed = int(os.environ.get("VERIF_SEED", "0") or 0)
    mod = importlib.import_module("dynmon.props." + prop.lower())
    t0 = time.time()
    results, problems = run_workers(prop, a.tier, seed, mod)
    agg = merge(results)
    listed = known.load()
    # DYNMON_EVIDENCE_DIR redirects the output when the monitors are validated against a mutated scratch
    # copy of the repository (tools/mutants.py); the registered checks always write /verif/evidence
    evdir = os.environ.get("DYNMON_EVIDENCE_DIR") or os.path.join(env.VERIF, "evidence")
    os.makedirs(os.path.join(evdir, "replays"), exist_ok=True)
    for fn in os.listdir(os.path.join(evdir, "replays")):
        if fn.startswith(prop + "-"):
            os.remove(os.path.join(evdir, "replays", fn))

    # ---- classify findings
    known_seen, violations = {}, []
    for f in agg["findings"]:
        sig = f["signature"]
        if sig.startswith("known:") and (f["property"], sig[6:]) in listed:
            known_seen.setdefault(sig[6:], f)
        else:
            violations.append(f)
    n_unlisted = sum(c for s, c in agg["sig_count"].items()
                     if not (s.startswith("known:") and (prop, s[6:]) in listed))

    # ---- conclusiveness: every deciding monitor must have run
    reasons = list(problems)
    if not results:
        reasons.append("no worker result")
    # the thresholds are stated for shards that used their whole CPU budget; shards stopped by the wall-clock
    # cap (machine overloaded) did proportionally less, and are held to proportionally less - never below a
    # quarter of the stated numbers
    cpu_nominal = float(len(results) * mod.BUDGET[a.tier]) or 1.0
    cpu_used = sum(r.get("cpu_s", 0) for r in results)
    min_scale = min(1.0, max(0.25, cpu_used / cpu_nominal))
    for oracle, least in getattr(mod, "MIN", {}).get(a.tier, {}).items():
        got = sum(c for k, c in agg["counters"].items() if k == oracle or k.startswith(oracle))
        if got < least * min_scale:
            reasons.append("monitor %r evaluated %d < %d times" % (oracle, got, int(least * min_scale)))
    for cellname in getattr(mod, "REQUIRED_CELLS", {}).get(a.tier, ()):
        if not agg["cells"].get(cellname):
            reasons.append("coverage cell %r never reached" % cellname)

    # ---- which library lines the workload executed (observation of reach, dynmon/reach.py)
    from . import reach as reach_
    library_reach = reach_.summarise(os.path.join(env.REPO, "dynetx"), agg["reach"]) if agg["reach_shards"] else {}
    anchored = anchored_files(prop)
    for fn, d in library_reach.items():
        if fn not in anchored:
            d.pop("unreached", None)        # line ranges are listed for the anchored files only
    for fn in anchored:
        d = library_reach.get(fn)
        if agg["reach_shards"] and d is not None and d["function_body_reached"] == 0:
            reasons.append("no function body line of the anchored file %s was executed" % fn)

    wall = round(time.time() - t0, 2)
    evaluations = sum(agg["counters"].values())
    ev = dict(
        property_id=prop, tier=a.tier, seed=seed, level=mod.LEVEL,
        coverage=dict(
            evaluations=int(evaluations),
            distinct_nontrivial=len(agg["distinct"]),
            rule=mod.RULE,
            samples=agg["samples"] or ["<none>"],
            executions=agg["cases"],
            oracle_evaluations=dict(sorted(agg["counters"].items())),
            cells=dict(sorted(agg["cells"].items())),
            skipped=agg["skipped"],
            observed=agg["notes"],
            shards=len(results),
            hashseeds=sorted(set(r["hashseed"] for r in results)),
            # only when every shard finished its exhaustive universe
            exhaustive=bool(getattr(mod, "EXHAUSTIVE", {}).get(a.tier, False)) and not reasons
            and agg["notes"].get("exhaustive_done", len(results)) == len(results),
            known_findings_reproduced={k: agg["sig_count"].get("known:" + k, 0) for k in known_seen},
            findings_by_signature=agg["sig_count"],
            cpu_s=dict(budget=cpu_nominal, used=round(cpu_used, 1), min_threshold_scale=round(min_scale, 3)),
            library_reach=library_reach,
            library_reach_shards=agg["reach_shards"],
            inconclusive_reasons=reasons,
        ),
        assumptions=list(getattr(mod, "ASSUMPTIONS", [])) + [
            "networkx %s is the semantics of static graphs" % __import__("networkx").__version__,
            "the library under test is the working tree at %s" % env.REPO],
        wall_s=wall,
        violations=int(n_unlisted),
    )
    path = os.path.join(evdir, prop + ".json")
    with open(path + ".tmp", "w") as f:
        json.dump(ev, f, indent=1, sort_keys=True, default=repr)
    os.replace(path + ".tmp", path)

    print("dynmon %s tier=%s seed=%d: %d executions, %d oracle evaluations, %d distinct non-trivial cases, %.1fs"
          % (prop, a.tier, seed, agg["cases"], evaluations, len(agg["distinct"]), wall))
    for k, f in sorted(known_seen.items()):
        print("KNOWN-FINDING: property=%s %s: %s" % (prop, k, listed[(prop, k)]))
    status = 0
    if violations:
        by_sig = {}
        for f in violations:
            by_sig.setdefault(f["signature"], f)
        for n, (sig, f) in enumerate(sorted(by_sig.items())):
            rp = os.path.join(evdir, "replays", "%s-%d.json" % (prop, n))
            with open(rp, "w") as fh:
                json.dump(dict(property=prop, tier=a.tier, seed=seed, finding=f,
                               count=agg["sig_count"].get(sig)), fh, indent=1, default=repr)
            print("  oracle %s: %s" % (f["oracle"], json.dumps(f["detail"], default=repr)[:600]))
            print("VIOLATION property=%s replay=%s" % (prop, rp))
        status = 1
    if reasons and status == 0:
        for r in reasons[:6]:
            print("INCONCLUSIVE property=%s reason=%s" % (prop, r.strip().replace("\n", " | ")[-700:]))
        status = 2
    return status


if __name__ == "__main__":
    sys.exit(main())
