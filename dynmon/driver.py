"""Drive a program against the real graph and the model in lock-step (history + executable
model, DESIGN.md 3.1/5-C01).  The call outcome is observed at the client boundary."""
import networkx as nx

from . import gen
from .model import Model, runs


# list objects a "caller" keeps and passes again: one per distinct node bunch and graph under construction.
# The model always works from the op (the caller's intent); if the library modified the caller's list, the next
# call with the same bunch shows it.
_CALLER_LISTS = {}


def new_graph(dn, directed, removal=True):
    _CALLER_LISTS.clear()
    cls = dn.DynDiGraph if directed else dn.DynGraph
    return cls() if removal else cls(edge_removal=False)


def call(dn, G, op):
    kind = op[0]
    if kind == "add":
        return G.add_interaction(op[1], op[2], op[3], op[4])
    if kind == "addfrom":
        # a one-shot iterator: the ebunch may be consumed only once (add_path & co. pass zip objects)
        if len(op[1]) > 50:
            return G.add_interactions_from([tuple(x) for x in op[1]], op[2], op[3])     # a sized bulk load
        return G.add_interactions_from((tuple(x) for x in op[1]), op[2], op[3])
    if kind in ("path", "star", "cycle"):
        # "nodes: iterable container": lists and one-shot iterators alternate
        ns = list(op[1])
        if len(ns) % 2:
            return getattr(G, "add_" + kind)(iter(ns), op[2])
        try:
            key = (kind, tuple(ns))
            held = _CALLER_LISTS.setdefault(key, ns)
        except TypeError:
            held = ns
        return getattr(G, "add_" + kind)(held, op[2])
    if kind in ("dn.path", "dn.star", "dn.cycle"):
        f = getattr(dn, "add_" + kind[3:])
        if op[3] is None:
            return f(G, list(op[1]), op[2])
        return f(G, list(op[1]), op[2], e=op[3])
    if kind == "node":
        return G.add_node(op[1], **op[2])
    if kind == "nodes_from":
        return G.add_nodes_from([(n, dict(d)) for n, d in op[1]])
    if kind == "clear":
        return G.clear()
    if kind == "clear_edges":
        return G.clear_edges()
    raise ValueError(op)


def outcome(dn, G, op):
    """(exception type name or None, exception)"""
    try:
        call(dn, G, op)
    except Exception as ex:  # observed, classified by the caller
        return type(ex).__name__, ex
    return None, None


def step(ctx, dn, G, m, op, oracle="add_interaction:outcome"):
    """Apply op to G and m.  Returns (ok, rejected): ok=False when the real outcome differs from
    the model's verdict (C01 clause 3) - the caller must then stop using this history."""
    if op[0] == "node":
        call(dn, G, op)
        m.add_node(op[1], **op[2])
        return True, False
    if op[0] in ("clear", "clear_edges"):
        call(dn, G, op)
        m.clear(edges_only=op[0] == "clear_edges")
        return True, False
    if op[0] == "nodes_from":
        call(dn, G, op)
        gen.advance(m, op)
        return True, False
    if m.removal:
        m2 = m.copy()
        exp = gen.advance(m2, op)
        got, ex = outcome(dn, G, op)
        ok = ctx.expect(oracle, got, exp, dict(op=op, message=str(ex) if ex else None))
        if ok:
            _adopt(m, m2)
        return ok, exp is not None
    # accumulative mode: which calls are rejected is not asserted (DESIGN 4.14); only the type
    els = gen.elements(op)
    if not els and op[0] != "add" and op[2] is not None:
        # a bunch that yields no pair: nothing is added, nothing is raised
        got, ex = outcome(dn, G, op)
        ok = ctx.expect(oracle, got, None, dict(op=op, note="empty bunch"))
        return ok, False
    if op[0] != "add" and len(els) != 1:
        raise ValueError("accumulative workloads use single-element ops")
    got, ex = outcome(dn, G, op)
    u, v, t, e = els[0]
    if t is None:
        ok = ctx.expect(oracle, got, "NetworkXError", dict(op=op))
        return ok, True
    ctx.count(oracle + "(accumulative)")
    if got is None:
        m.apply(u, v, t, e)
        return True, False
    if got == "ValueError":
        return True, True
    ctx.violation(oracle + "(accumulative)", dict(op=op, observed=got, message=str(ex)))
    return False, True


def _adopt(m, m2):
    m.nodes, m.P, m.orient, m.first = m2.nodes, m2.P, m2.orient, m2.first
    m.accepted, m.graph, m.open1, m.unclosed = m2.accepted, m2.graph, m2.open1, m2.unclosed


def build(ctx, dn, prog, directed, removal=True, check=True):
    """run a whole program; returns (G, m, ok)"""
    G = new_graph(dn, directed, removal)
    m = Model(directed, removal)
    for op in prog:
        ok, _ = step(ctx, dn, G, m, op)
        if not ok:
            return G, m, False
    return G, m, True


def build_accepted(dn, prog, directed, removal=True):
    """build G and m from a program, silently dropping the ops a correct library rejects and
    stopping (returning ok=False) if the real call disagrees; used by the checks whose subject
    is not add_interaction itself (C06, C09-C17...)."""
    G = new_graph(dn, directed, removal)
    m = Model(directed, removal)
    for op in prog:
        if op[0] == "node":
            call(dn, G, op)
            m.add_node(op[1], **op[2])
            continue
        if op[0] in ("clear", "clear_edges"):
            call(dn, G, op)
            m.clear(edges_only=op[0] == "clear_edges")
            continue
        if op[0] == "nodes_from":
            call(dn, G, op)
            gen.advance(m, op)
            continue
        m2 = m.copy()
        exp = gen.advance(m2, op)
        if exp is not None:
            continue
        got, ex = outcome(dn, G, op)
        if got is not None:
            return G, m, False
        _adopt(m, m2)
    return G, m, True
