"""PASSIVE workload (DESIGN.md 3.4): the repository's own tests run in-process with a probe on
add_interaction, so that every graph those tests build - directly, through bulk helpers, slices,
conversions or readers - carries a shadow model from birth and is audited when the test ends.
The tests are a workload only; their own assertions are ignored.

The probe replaces DynGraph.add_interaction / DynDiGraph.add_interaction on the classes (never a
subclass: `super(self.__class__, self)` in the constructors would recurse) for the duration of the
run and restores them afterwards.
"""
import functools
import os

from . import env
from .guard import guarded
from .model import Model

_STATE = dict(ctx=None, dn=None, battery=None, live=[], depth=0)


def _shadow(G):
    sh = G.__dict__.get("_dynmon")
    if sh is None:
        sh = Model(G.is_directed(), bool(getattr(G, "edge_removal", True)))
        sh.diverged = bool(G.number_of_nodes() and any(True for _ in G.adj.values() if _))
        G.__dict__["_dynmon"] = sh
        _STATE["live"].append(G)
    return sh


def _wrap(orig):
    @functools.wraps(orig)
    def add_interaction(self, u, v, t=None, e=None):
        ctx = _STATE["ctx"]
        if ctx is None or _STATE["depth"]:
            return orig(self, u, v, t, e)          # monitors' own queries never appear in the history
        sh = _shadow(self)
        plain = isinstance(t, int) and not isinstance(t, bool) and (e is None or (isinstance(e, int) and e > t))
        exp = sh.verdict(u, v, t, e) if (sh.removal and (plain or t is None)) else None
        try:
            r = orig(self, u, v, t, e)
        except Exception as ex:
            got = type(ex).__name__
            if sh.removal and (plain or t is None) and not sh.diverged:
                ctx.cell("passive:rejected-calls")
                if not ctx.expect("passive:add_interaction:outcome", got, exp, dict(u=u, v=v, t=t, e=e)):
                    sh.diverged = True
            raise
        if not plain:
            sh.diverged = True                      # spans outside the claimed domain (e <= t, list t)
            return r
        if sh.removal and not sh.diverged:
            if not ctx.expect("passive:add_interaction:outcome", None, exp, dict(u=u, v=v, t=t, e=e)):
                sh.diverged = True
                return r
        sh.apply(u, v, t, e)
        ctx.cell("passive:accepted-calls")
        return r
    return add_interaction


def audit_live(where):
    ctx, dn, battery = _STATE["ctx"], _STATE["dn"], _STATE["battery"]
    live, _STATE["live"] = _STATE["live"], []
    _STATE["depth"] += 1
    try:
        for G in live:
            sh = G.__dict__.get("_dynmon")
            if sh is None or sh.diverged or not sh.P:
                ctx.skip("passive: graph outside the claimed domain or empty")
                continue
            # nodes added without interactions (add_node, add_nodes_from) are read from the object
            for n, d in G.nodes(data=True):
                sh.nodes.setdefault(n, {})
                sh.nodes[n] = dict(d)
            ctx.case = dict(workload="PASSIVE", test=where, cls=type(G).__name__, removal=sh.removal,
                            presence={repr(k): sorted(v) for k, v in sh.P.items()})
            ctx.cases += 1
            ctx.cell("passive:graphs-audited")
            guarded(ctx, "passive:audit", battery, ctx, dn, G, sh)
            if sh.nontrivial():
                ctx.nontrivial("passive", where, sh.state_key())
    finally:
        _STATE["depth"] -= 1


class Plugin(object):
    def pytest_runtest_teardown(self, item, nextitem):
        audit_live(item.nodeid)


def run(ctx, dn, battery):
    """run the repository's tests as a workload under the probe; returns number of graphs audited"""
    import pytest
    classes = (dn.DynGraph, dn.DynDiGraph)
    saved = [c.add_interaction for c in classes]
    _STATE.update(ctx=ctx, dn=dn, battery=battery, live=[], depth=0)
    before = ctx.cells.get("passive:graphs-audited", 0)
    try:
        for c in classes:
            setattr(c, "add_interaction", _wrap(c.__dict__["add_interaction"]))
        testdir = os.path.join(env.REPO, "dynetx", "test")
        with open(os.devnull, "w") as devnull:
            import contextlib
            with contextlib.redirect_stdout(devnull), contextlib.redirect_stderr(devnull):
                pytest.main(["-q", "--no-header", "-p", "no:cacheprovider", "-p", "no:randomly",
                             "--rootdir", env.REPO, "-o", "addopts=", "--continue-on-collection-errors",
                             "-W", "ignore", "--timeout=600", testdir], plugins=[Plugin()])
        audit_live("<end of session>")
    finally:
        for c, f in zip(classes, saved):
            setattr(c, "add_interaction", f)
        _STATE.update(ctx=None, battery=None, live=[])
    ctx.case = None
    return ctx.cells.get("passive:graphs-audited", 0) - before
