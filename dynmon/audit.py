"""Quiescent-point audits of one live graph against its model (DESIGN.md 3.3, C01-C05, C08).

Every function takes the worker context, the loaded library `dn`, the real graph `G` and the
model `m`, issues queries through G's public API only and reports through ctx.expect().
`tag` prefixes oracle names (e.g. "slice:" when the audited object is a derived graph).
"""
import numbers
from collections import Counter

import networkx as nx

from .model import runs

FAR = (-10 ** 9, 10 ** 9)


def poison(x):
    """A caller may do what it likes with a returned container: after an answer has been compared, its
    top-level container is overwritten in place.  If the library handed out (or cached) internal state, the
    next query or the next audit sees the damage.  Only top-level containers are touched - nested objects
    such as node attribute dicts and the adjacency entry returned by interactions() are live by design."""
    try:
        if isinstance(x, dict):
            for k in list(x):
                x[k] = "poisoned-by-caller"
        elif isinstance(x, list):
            x[:] = ["poisoned-by-caller"] * len(x)
    except TypeError:
        pass
    return x


def instants(m, cap=14, rng=None):
    """audit instants: the whole window [min-1, max+1] when small, otherwise the borders of every
    run plus a sample; always two far-away instants"""
    w = m.window(1)
    if len(w) > cap:
        keep = set(w[:2]) | set(w[-2:])
        for k in m.P:
            for a, b in runs(m.presence_set(k))[-3:]:
                keep |= {a - 1, a, b, b + 1}
        keep = sorted(keep)
        if len(keep) > cap:
            if rng is not None:
                mid = rng.sample(keep[2:-2], cap - 4)
            else:
                mid = keep[2:-2][:: max(1, len(keep) // cap)][:cap - 4]
            keep = sorted(set(keep[:2] + keep[-2:] + mid))
        w = keep
    return list(w) + list(FAR)


def pairs_to_probe(m, extra_nodes=()):
    """every known pair in both argument orders (+ never-added pairs over the known nodes)"""
    nodes = list(m.nodes) + list(extra_nodes)
    out = []
    seen = set()
    for u in nodes:
        for v in nodes:
            if (u, v) not in seen:
                seen.add((u, v))
                out.append((u, v))
    return out


# ---------------------------------------------------------------------- C01 / C08 presence
def audit_presence(ctx, dn, G, m, tag="", ts=None, unknown=("__nope__",)):
    ts = instants(m, rng=ctx.rng) if ts is None else ts
    nodes = list(m.nodes)
    if len(nodes) > 6:
        nodes = ctx.rng.sample(nodes, 6)
    probe = [(u, v) for u in nodes for v in nodes]
    for x in unknown:
        if nodes:
            probe += [(nodes[0], x), (x, nodes[0])]
        probe.append((x, x))
    for u, v in probe:
        k = m.key(u, v)
        ctx.expect(tag + "has_interaction(u,v)", G.has_interaction(u, v), k in m.P,
                   dict(u=u, v=v))
        for t in ts:
            ctx.expect(tag + "has_interaction(u,v,t)", G.has_interaction(u, v, t), m.present(k, t),
                       dict(u=u, v=v, t=t))


# ---------------------------------------------------------------------- C03 timelines
def observed_timelines(ctx, G, m, tag=""):
    """timelines exposed with t omitted, as {key: list}; checks each pair is listed once"""
    out = {}
    if m.directed:
        lst = G.out_interactions()
    else:
        lst = G.interactions()
    cnt = Counter()
    for it in lst:
        u, v, d = it
        k = m.key(u, v)
        cnt[k] += 1
        out[k] = d.get('t') if isinstance(d, dict) else None
    dup = {k for k, c in cnt.items() if c > 1}
    ctx.expect(tag + "timeline:listed-once", dup, set(), dict())
    return out


def canonical_problem(tl):
    """None if tl is a canonical timeline, else a short description"""
    if not isinstance(tl, list):
        return "not a list"
    prev = None
    for iv in tl:
        if not (isinstance(iv, (list, tuple)) and len(iv) == 2):
            return "interval is not a pair"
        a, b = iv
        if not (isinstance(a, numbers.Integral) and isinstance(b, numbers.Integral)):
            return "non-integer bound"          # (bool and numpy integers are integers)
        if a > b:
            return "start > end"
        if prev is not None and a < prev + 2:
            return "intervals overlap, touch or are out of order"
        prev = b
    return None


def audit_timelines(ctx, dn, G, m, tag=""):
    obs = observed_timelines(ctx, G, m, tag)
    exp = m.timelines()
    ctx.expect(tag + "timeline:pairs", set(obs), set(exp), dict())
    for k, tl in obs.items():
        prob = canonical_problem(tl)
        ctx.expect(tag + "timeline:canonical", prob, None, dict(pair=k, timeline=tl))
        if k in exp:
            ctx.expect(tag + "timeline:union==presence",
                       [list(i) for i in tl] if isinstance(tl, list) else tl, exp[k],
                       dict(pair=k))
    if m.directed:
        # the same timeline must be visible from the predecessor side
        ins = {}
        for u, v, d in G.in_interactions():
            ins[m.key(u, v)] = d.get('t')
        ctx.expect(tag + "timeline:in==out", ins, dict(obs), dict())
    else:
        # both end points of an undirected pair expose the same timeline
        for k in list(exp)[:8]:
            u, v = m.orient[k]
            if u == v:
                continue
            a = [d.get('t') for x, y, d in G.interactions([u]) if m.key(x, y) == k]
            b = [d.get('t') for x, y, d in G.interactions([v]) if m.key(x, y) == k]
            ctx.expect(tag + "timeline:both-endpoints", (a, b), ([exp[k]], [exp[k]]), dict(pair=k))


# ---------------------------------------------------------------------- C04 ids and counts
def audit_snapshots(ctx, dn, G, m, tag="", ts=None):
    ids = m.ids()
    obs = G.temporal_snapshots_ids()
    ctx.expect(tag + "temporal_snapshots_ids", obs, ids, dict())
    poison(obs)
    ctx.expect(tag + "dn.temporal_snapshots_ids", dn.temporal_snapshots_ids(G), ids, dict())
    if not m.removal:
        # queries have no side effect: probing instants (inhabited or not) must not create snapshot ids
        for t in (instants(m, rng=ctx.rng) if ts is None else ts):
            G.interactions_per_snapshots(t)
        ctx.expect(tag + "temporal_snapshots_ids(after probing)", G.temporal_snapshots_ids(), ids, dict())
        return
    per = G.interactions_per_snapshots()
    exp = {t: m.count_at(t) for t in ids}
    ctx.expect(tag + "interactions_per_snapshots()", per, exp, dict())
    poison(per)
    ctx.expect(tag + "dn.interactions_per_snapshots()", dn.interactions_per_snapshots(G), exp, dict())
    ts = instants(m, rng=ctx.rng) if ts is None else ts
    for t in ts:
        ctx.expect(tag + "interactions_per_snapshots(t)", G.interactions_per_snapshots(t),
                   m.count_at(t), dict(t=t))
    if ids:
        t = ids[len(ids) // 2]
        ctx.expect(tag + "dn.interactions_per_snapshots(t)", dn.interactions_per_snapshots(G, t),
                   m.count_at(t), dict(t=t))
        S = [m.static(t) for t in ids]
        mean = sum(sum(1 for n, d in s.degree() if d > 0) for s in S) / len(ids)
        ctx.expect(tag + "avg_number_of_nodes", G.avg_number_of_nodes(), mean, dict(),
                   eq=lambda a, b: isinstance(a, (int, float)) and abs(a - b) <= 1e-12 * max(1, abs(b)))
    # queries have no side effect: after all the probing above the ids are still the same
    ctx.expect(tag + "temporal_snapshots_ids(after probing)", G.temporal_snapshots_ids(), ids, dict())


# ---------------------------------------------------------------------- C05 stream
def replay_stream(events, keyf):
    """10-line interpreter of an event log: '+' opens, next '-' closes, unclosed '+' = 1 instant"""
    P, opened, err = {}, {}, []
    for u, v, op, t in events:
        k = keyf(u, v)
        if op == '+':
            if k in opened:
                P.setdefault(k, set()).add(opened[k])
            opened[k] = t
        elif op == '-':
            if k not in opened:
                err.append((u, v, op, t))
            else:
                P.setdefault(k, set()).update(range(opened.pop(k), t))
        else:
            err.append((u, v, op, t))
    for k, a in opened.items():
        P.setdefault(k, set()).add(a)
    return P, err


def audit_stream(ctx, dn, G, m, tag=""):
    ev = list(G.stream_interactions())
    ev2 = list(dn.stream_interactions(G))
    ctx.expect(tag + "stream:dn-wrapper", ev2, ev, dict())
    shape_ok = all(isinstance(x, tuple) and len(x) == 4 and x[2] in ('+', '-') for x in ev)
    ctx.expect(tag + "stream:shape", shape_ok, True, dict(stream=ev[:20]))
    if not shape_ok:
        return ev
    times = [x[3] for x in ev]
    ctx.expect(tag + "stream:chronological", times == sorted(times), True, dict(times=times[:40]))
    trip = Counter((m.key(u, v), op, t) for u, v, op, t in ev)
    rep = sorted((repr(k), c) for k, c in trip.items() if c > 1)
    ctx.expect(tag + "stream:no-repeat", rep, [], dict())
    plus = set((m.key(u, v), t) for u, v, op, t in ev if op == '+')
    minus = set((m.key(u, v), t) for u, v, op, t in ev if op == '-')
    exp_plus = m.expected_plus()
    ctx.expect(tag + "stream:plus==run-starts", plus, exp_plus, dict())
    if not m.removal:
        ctx.expect(tag + "stream:no-minus(accumulative)", sorted(map(repr, minus)), [], dict())
        return ev
    bad = sorted(repr((k, t)) for k, t in minus
                 if not (k in m.P and (t - 1) in m.P[k] and t not in m.P[k]))
    ctx.expect(tag + "stream:minus-sound", bad, [], dict())
    # every run longer than one instant is closed
    need = set()
    de = set()
    for k, s in m.P.items():
        for a, b in runs(s):
            if b > a:
                need.add((k, b + 1))
                if a in m.unclosed.get(k, ()) and b == a + 1:
                    de.add((k, b + 1))
    missing = sorted(repr(x) for x in need - minus)
    ctx.expect(tag + "stream:runs-closed", missing, [], dict(),
               deviants=lambda: {"point-extended-run-unclosed": sorted(repr(x) for x in de)} if de else {})
    # replay reconstructs presence
    P, err = replay_stream(ev, m.key)
    ctx.expect(tag + "stream:replay-wellformed", err, [], dict())
    exp = {k: set(s) for k, s in m.P.items() if s}

    def deviant():
        if not de:
            return {}
        d = {k: set(s) for k, s in exp.items()}
        for k, t in de:
            d[k].discard(t - 1)
        return {"point-extended-run-unclosed": d}
    ctx.expect(tag + "stream:replay==presence", P, exp, dict(), deviants=deviant)
    return ev


# ---------------------------------------------------------------------- C02 queries
def _ms(pairs, m):
    return Counter(m.key(u, v) for u, v in pairs)


def _close(a, b):
    try:
        return abs(a - b) <= 1e-12 * max(1.0, abs(b))
    except TypeError:
        return False


def _loops(S):
    return set(n for n in S if S.has_edge(n, n))


def _dev_degree(S, m):
    """D-B: DynGraph counts a self-loop once in degree"""
    lp = _loops(S)
    return {n: d - (1 if n in lp else 0) for n, d in S.degree()}


def audit_queries(ctx, dn, G, m, tag="", ts=None, full=True):
    ts = instants(m, cap=10, rng=ctx.rng) if ts is None else ts
    nodes = list(m.nodes)
    if not nodes:
        return
    rng = ctx.rng
    for t in [None] + list(ts):
        S = m.static(t)
        if (t == 0 or t == 1) and not isinstance(t, bool) and rng.random() < 0.3:
            t = bool(t)         # True/False are the integers 1/0: the same instant, written differently
        # re-entrancy: a sweep over the interactions is started, left suspended while all the other queries of
        # this instant run, and finished afterwards; both the queries and the resumed sweep must be exact
        held = G.interactions_iter(t=t) if t is not None else G.interactions_iter()
        first = next(held, None)
        some = rng.sample(nodes, min(2, len(nodes)))
        one = some[0]
        nbunches = [None, [one], list(some), list(some) + ["__nope__"]]
        detail = dict(t=t)
        loops = (not m.directed) and bool(_loops(S))
        active = [n for n, d in S.degree() if d > 0]

        # --- nodes, has_node, number_of_nodes
        exp_nodes = list(S) if t is None else active
        raw = G.nodes(t)
        ctx.expect(tag + "nodes(t)", Counter(raw), Counter(exp_nodes), detail)
        poison(raw)
        ctx.expect(tag + "dn.nodes(G,t)", Counter(dn.nodes(G, t)), Counter(exp_nodes), detail)
        # the _iter form, data left at its default (False): the nodes themselves
        ctx.expect(tag + "nodes_iter(t)", Counter(list(G.nodes_iter(t) if t is not None else G.nodes_iter())),
                   Counter(exp_nodes), detail)
        obs = G.nodes(t, data=True) if t is not None else G.nodes(data=True)
        obs = list(obs)
        ctx.expect(tag + "nodes(t,data=True)", (len(obs), dict(obs)),
                   (len(exp_nodes), {n: m.nodes[n] for n in exp_nodes}), detail)
        ctx.expect(tag + "number_of_nodes(t)", G.number_of_nodes(t), len(exp_nodes), detail)
        ctx.expect(tag + "dn.number_of_nodes(G,t)", dn.number_of_nodes(G, t), len(exp_nodes), detail)
        if not m.directed:
            ctx.expect(tag + "order(t)", G.order(t), len(exp_nodes), detail)
        for n in some + ["__nope__"]:
            ctx.expect(tag + "has_node(n,t)", G.has_node(n, t), n in exp_nodes, dict(t=t, n=n))
        if t is None:
            # something that cannot be a node is not a node (networkx semantics of the static graph)
            ctx.expect(tag + "has_node(unhashable)", G.has_node([one]), S.has_node([one]), dict(n=[one]))
        # pairs with an unknown end point are absent; has_successor / has_predecessor are has_interaction
        # read forwards / backwards
        for (a_, b_) in ((one, "__nope__"), ("__nope__", one), ("__nope__", "__nope2__")):
            ctx.expect(tag + "has_interaction(unknown-endpoint,t)", G.has_interaction(a_, b_, t), False,
                       dict(t=t, u=a_, v=b_))
        if m.directed:
            for a_ in some:
                for b_ in some + ["__nope__"]:
                    ctx.expect(tag + "has_successor(u,v,t)", G.has_successor(a_, b_, t), S.has_edge(a_, b_),
                               dict(t=t, u=a_, v=b_))
                    ctx.expect(tag + "has_predecessor(u,v,t)", G.has_predecessor(a_, b_, t), S.has_edge(b_, a_),
                               dict(t=t, u=a_, v=b_))

        # --- interactions (+ in/out)
        for nb in nbunches:
            d2 = dict(t=t, nbunch=nb)
            known = None if nb is None else [n for n in nb if n in S]
            if m.directed:
                exp = Counter(list(S.out_edges(known)))
            else:
                exp = _ms(list(S.edges(known)), m)
            lst = G.interactions(iter(nb) if (nb is not None and len(nb) == 2) else nb, t) \
                if t is not None else G.interactions(nb)
            third_ok = all(len(x) == 3 for x in lst) and \
                (t is None or all(x[2] == {"t": [t]} for x in lst))
            ctx.expect(tag + "interactions:tuple-shape", third_ok, True, d2)
            if m.directed:
                ob = Counter((x[0], x[1]) for x in lst)

                def dev(known=known, S=S, nb=nb):
                    # D-A: an edge n->nbr is skipped when nbr was iterated (as a source) before n
                    order = [n for n in G.nodes() if n in S] if nb is None else known
                    seen, out = set(), []
                    for n in order:
                        for nbr in S.successors(n):
                            if nbr not in seen:
                                out.append((n, nbr))
                        seen.add(n)
                    return {"digraph-interactions-drops-backward-edge": Counter(out)}
                ctx.expect(tag + "interactions(nbunch,t)", ob, exp, d2, deviants=dev)
                if nb is None or t is not None:
                    ob2 = Counter((x[0], x[1]) for x in dn.interactions(G, nb, t))
                    ctx.expect(tag + "dn.interactions(G,nbunch,t)", ob2, exp, d2, deviants=dev)
                # the _iter forms answer like the list forms
                ctx.expect(tag + "out_interactions_iter(nbunch,t)",
                           Counter((x[0], x[1]) for x in G.out_interactions_iter(nb, t)), exp, d2)
                ctx.expect(tag + "in_interactions_iter(nbunch,t)",
                           Counter((x[0], x[1]) for x in G.in_interactions_iter(nb, t)),
                           Counter(list(S.in_edges(known))), d2)
                lo = G.out_interactions(nb, t)
                ctx.expect(tag + "out_interactions(nbunch,t)", Counter((x[0], x[1]) for x in lo), exp, d2)
                li = G.in_interactions(nb, t)
                ctx.expect(tag + "in_interactions(nbunch,t)", Counter((x[0], x[1]) for x in li),
                           Counter(list(S.in_edges(known))), d2)
                if t is not None:
                    ctx.expect(tag + "in/out_interactions:tuple-shape",
                               all(x[2] == {"t": [t]} for x in lo + li), True, d2)
            else:
                ctx.expect(tag + "interactions(nbunch,t)", _ms(((x[0], x[1]) for x in lst), m), exp, d2)
                ob2 = _ms(((x[0], x[1]) for x in dn.interactions(G, nb, t)), m)
                ctx.expect(tag + "dn.interactions(G,nbunch,t)", ob2, exp, d2)

        # --- neighbours
        for n in some:
            d2 = dict(t=t, n=n)
            if m.directed:
                succ, pred = list(S.successors(n)), list(S.predecessors(n))
                raw = G.successors(n, t)
                ctx.expect(tag + "successors(n,t)", Counter(raw), Counter(succ), d2)
                poison(raw)
                ctx.expect(tag + "successors_iter(n,t)", Counter(G.successors_iter(n, t)), Counter(succ), d2)
                ctx.expect(tag + "predecessors(n,t)", Counter(G.predecessors(n, t)), Counter(pred), d2)
                ctx.expect(tag + "predecessors_iter(n,t)", Counter(G.predecessors_iter(n, t)), Counter(pred), d2)
                ctx.expect(tag + "neighbors(n,t)", Counter(G.neighbors(n, t)), Counter(succ), d2)
                ctx.expect(tag + "neighbors_iter(n,t)", Counter(G.neighbors_iter(n, t)), Counter(succ), d2)
                ctx.expect(tag + "dn.neighbors(G,n,t)", Counter(dn.neighbors(G, n, t)), Counter(succ), d2)
                ctx.expect(tag + "dn.all_neighbors(G,n,t)", Counter(dn.all_neighbors(G, n, t)),
                           Counter(pred + succ), d2)
                nn = set(dn.non_neighbors(G, n, t))
                both = set(S) - set(succ) - set(pred) - {n}
                ctx.count(tag + "dn.non_neighbors(G,n,t)")
                if nn != both and nn != set(nx.non_neighbors(S, n)):
                    ctx.violation(tag + "dn.non_neighbors(G,n,t)", dict(d2, observed=nn, expected=both))
            else:
                nb_ = list(S.neighbors(n))
                raw = G.neighbors(n, t)
                ctx.expect(tag + "neighbors(n,t)", Counter(raw), Counter(nb_), d2)
                poison(raw)
                ctx.expect(tag + "neighbors_iter(n,t)", Counter(G.neighbors_iter(n, t)), Counter(nb_), d2)
                ctx.expect(tag + "dn.neighbors(G,n,t)", Counter(dn.neighbors(G, n, t)), Counter(nb_), d2)
                ctx.expect(tag + "dn.all_neighbors(G,n,t)", Counter(dn.all_neighbors(G, n, t)), Counter(nb_), d2)
                ctx.expect(tag + "dn.non_neighbors(G,n,t)", Counter(dn.non_neighbors(G, n, t)),
                           Counter(set(S) - set(nb_) - {n}), d2)

        # --- degrees
        degS = dict(S.degree())
        devdeg = (lambda: {"dyngraph-selfloop-counted-once": _dev_degree(S, m)}) if loops else None
        ctx.expect(tag + "degree_iter(t)", dict(G.degree_iter(t=t)), degS, detail, deviants=devdeg)
        if m.directed:
            ctx.expect(tag + "in_degree_iter(t)", dict(G.in_degree_iter(t=t)), dict(S.in_degree()), detail)
            ctx.expect(tag + "out_degree_iter(t)", dict(G.out_degree_iter(t=t)), dict(S.out_degree()), detail)
        raw = G.degree(t=t)
        ctx.expect(tag + "degree(t)", raw, degS, detail, deviants=devdeg)
        poison(raw)
        ctx.expect(tag + "dn.degree(G,t)", dn.degree(G, t=t), degS, detail, deviants=devdeg)
        # nbunch may be any iterable, also one that can be walked only once
        ctx.expect(tag + "degree(nbunch-iterator,t)", G.degree(iter(list(some)), t), {n: degS[n] for n in some},
                   dict(t=t, nbunch=some),
                   deviants=(lambda: {"dyngraph-selfloop-counted-once":
                                      {n: _dev_degree(S, m)[n] for n in some}}) if loops else None)
        for nb in nbunches[1:]:
            known = [n for n in nb if n in S]
            ctx.expect(tag + "degree(nbunch,t)", G.degree(nb, t), {n: degS[n] for n in known},
                       dict(t=t, nbunch=nb),
                       deviants=(lambda known=known: {"dyngraph-selfloop-counted-once":
                                                      {n: _dev_degree(S, m)[n] for n in known}}) if loops else None)
        ctx.expect(tag + "degree(n,t)", G.degree(one, t), degS[one], dict(t=t, n=one),
                   deviants=(lambda: {"dyngraph-selfloop-counted-once": _dev_degree(S, m)[one]}) if loops else None)
        if m.directed:
            raw = G.in_degree(t=t)
            ctx.expect(tag + "in_degree(t)", raw, dict(S.in_degree()), detail)
            poison(raw)
            raw = G.out_degree(t=t)
            ctx.expect(tag + "out_degree(t)", raw, dict(S.out_degree()), detail)
            poison(raw)
            ctx.expect(tag + "in_degree(nbunch-iterator,t)", G.in_degree(iter(list(some)), t),
                       {n: S.in_degree(n) for n in some}, dict(t=t, nbunch=some))
            ctx.expect(tag + "out_degree(nbunch-iterator,t)", G.out_degree(iter(list(some)), t),
                       {n: S.out_degree(n) for n in some}, dict(t=t, nbunch=some))
            ctx.expect(tag + "in_degree(n,t)", G.in_degree(one, t), S.in_degree(one), dict(t=t, n=one))
            ctx.expect(tag + "out_degree(n,t)", G.out_degree(one, t), S.out_degree(one), dict(t=t, n=one))
            nb = nbunches[3]
            known = [n for n in nb if n in S]
            ctx.expect(tag + "in_degree(nbunch,t)", G.in_degree(nb, t), {n: S.in_degree(n) for n in known},
                       dict(t=t, nbunch=nb))
            ctx.expect(tag + "out_degree(nbunch,t)", G.out_degree(nb, t), {n: S.out_degree(n) for n in known},
                       dict(t=t, nbunch=nb))

        # --- counts
        ne = S.number_of_edges()
        devsize = (lambda: {"dyngraph-selfloop-counted-once":
                            int(sum(_dev_degree(S, m).values()) / 2)}) if loops else None
        ctx.expect(tag + "number_of_interactions(t)", G.number_of_interactions(t=t), ne, detail, deviants=devsize)
        ctx.expect(tag + "dn.number_of_interactions(G,t)", dn.number_of_interactions(G, t=t), ne, detail,
                   deviants=devsize)
        ctx.expect(tag + "size(t)", G.size(t), ne, detail, deviants=devsize)
        for u in some:
            for v in some:
                e1 = 1 if S.has_edge(u, v) else 0
                ctx.expect(tag + "number_of_interactions(u,v,t)", G.number_of_interactions(u, v, t), e1,
                           dict(t=t, u=u, v=v))
        u, v = some[0], some[-1]
        ctx.expect(tag + "dn.number_of_interactions(G,u,v,t)", dn.number_of_interactions(G, u, v, t),
                   1 if S.has_edge(u, v) else 0, dict(t=t, u=u, v=v))

        # --- module-level statistics
        hist = nx.degree_histogram(S)

        def devhist():
            c = Counter(_dev_degree(S, m).values())
            return {"dyngraph-selfloop-counted-once": [c.get(i, 0) for i in range(max(c) + 1)]}
        ctx.expect(tag + "dn.degree_histogram(G,t)", dn.degree_histogram(G, t), hist, detail,
                   deviants=devhist if loops else None)
        St = S if t is None else S.subgraph(active)
        dens = nx.density(St)

        def devdens():
            out = {}
            if t is not None:
                out["density-at-t-is-zero"] = 0
            if loops and t is None:
                mm = int(sum(_dev_degree(S, m).values()) / 2)
                n = len(S)
                out["dyngraph-selfloop-counted-once"] = 0 if (mm == 0 or n <= 1) else 2 * mm / (n * (n - 1))
            return out
        ctx.expect(tag + "dn.density(G,t)", dn.density(G, t), dens, detail, deviants=devdens, eq=_close)

        rest = list(held)
        swept = ([first] if first is not None else []) + rest
        if m.directed:
            expsw = Counter(list(S.out_edges()))

            def devsw(S=S):
                order = [n for n in G.nodes() if n in S]
                seen, out = set(), []
                for n in order:
                    for nbr in S.successors(n):
                        if nbr not in seen:
                            out.append((n, nbr))
                    seen.add(n)
                return {"digraph-interactions-drops-backward-edge": Counter(out)}
            ctx.expect(tag + "interactions_iter(suspended-and-resumed)", Counter((x[0], x[1]) for x in swept), expsw,
                       detail, deviants=devsw)
        else:
            ctx.expect(tag + "interactions_iter(suspended-and-resumed)", _ms(((x[0], x[1]) for x in swept), m),
                       _ms(list(S.edges()), m), detail)
        # an nbunch may list a node several times: the answer is still restricted to the listed nodes
        dup = list(some) * (len(nodes) // max(1, len(some)) + 1)
        ctx.expect(tag + "degree(nbunch-with-repeats,t)", G.degree(dup, t), {n: degS[n] for n in some},
                   dict(t=t, nbunch=dup),
                   deviants=(lambda: {"dyngraph-selfloop-counted-once":
                                      {n: _dev_degree(S, m)[n] for n in some}}) if loops else None)
        if m.directed:
            ctx.expect(tag + "in_degree(nbunch-with-repeats,t)", G.in_degree(dup, t),
                       {n: S.in_degree(n) for n in some}, dict(t=t, nbunch=dup))
            ctx.expect(tag + "out_degree(nbunch-with-repeats,t)", G.out_degree(dup, t),
                       {n: S.out_degree(n) for n in some}, dict(t=t, nbunch=dup))

        if full:
            # non_interactions: set of pairs (unordered on DynGraph).  For a given t the statement does
            # not say whether nodes without interactions at t belong to the static graph: both accepted.
            obs = list(dn.non_interactions(G, t))
            if m.directed:
                expn = Counter(nx.non_edges(S))
                alt = Counter(nx.non_edges(St))

                def devni():
                    # known finding: only the successors of whichever endpoint is popped first are tested
                    ns, out = set(G), []
                    while ns:
                        a = ns.pop()
                        for b in ns - set(S[a]):
                            out.append((a, b))
                    return {"digraph-non_interactions-one-direction": Counter(out)}
                ctx.expect(tag + "dn.non_interactions(G,t)", Counter(obs), expn, detail, deviants=devni, also=(alt,))
            else:
                expn = Counter(frozenset(p) for p in nx.non_edges(S))
                alt = Counter(frozenset(p) for p in nx.non_edges(St))
                ctx.expect(tag + "dn.non_interactions(G,t)", Counter(frozenset(p) for p in obs), expn, detail,
                           also=(alt,))

    # --- time-independent entry points
    ctx.expect(tag + "dn.is_empty(G)", dn.is_empty(G), m.static(None).number_of_edges() == 0, dict())
    ctx.expect(tag + "dn.is_directed(G)", dn.is_directed(G), m.directed, dict())
    ids = m.ids()
    for n in rng.sample(nodes, min(2, len(nodes))):
        exp = [t for t in ids if m.static(t).degree(n) > 0]
        if ids:
            ctx.expect(tag + "get_node_snapshots(n)", G.get_node_snapshots(n), exp, dict(n=n))


# ---------------------------------------------------------------------- battery
def audit_all(ctx, dn, G, m, tag="", which=("C01", "C02", "C03", "C04", "C05"), full=True):
    ts = instants(m, rng=ctx.rng)
    if "C01" in which:
        audit_presence(ctx, dn, G, m, tag, ts)
    if "C03" in which and m.removal:
        audit_timelines(ctx, dn, G, m, tag)
    if "C04" in which:
        audit_snapshots(ctx, dn, G, m, tag, ts)
    if "C05" in which:
        audit_stream(ctx, dn, G, m, tag)
    if "C02" in which:
        audit_queries(ctx, dn, G, m, tag, ts[:10] if len(ts) > 12 else ts, full=full)


def model_from_timelines(G, unclosed=None):
    """a model holding exactly the presence that G's own timelines claim right now (used when the question is
    whether the indices of G agree with its timelines, whatever they should have been)"""
    from .model import Model
    h = Model(G.is_directed(), bool(getattr(G, "edge_removal", True)))
    for n in G.nodes():
        h.nodes[n] = {}
    lst = G.out_interactions() if G.is_directed() else G.interactions()
    for u, v, d in lst:
        k = h.key(u, v)
        sset = set()
        for a, b in d.get("t", []):
            sset |= set(range(a, b + 1))
        if sset:
            h.P[k] = sset
            h.orient[k] = (u, v)
            h.first[k] = min(sset)
    if unclosed:
        h.unclosed = {k: set(v) for k, v in unclosed.items() if k in h.P}
    return h
