"""setup step: confirm the library under test imports from the repository working tree."""
import sys

from . import env


def main():
    try:
        dn = env.load()
    except Exception as ex:
        print("dynmon selfcheck: cannot load dynetx from %s: %r" % (env.REPO, ex))
        return 1
    print("dynmon selfcheck: dynetx %s imports from %s" % (getattr(dn, "__version__", "?"), env.REPO))
    return 0


if __name__ == "__main__":
    sys.exit(main())
