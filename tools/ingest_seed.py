#!/venv/bin/python
"""Confirm a sub-agent's seeded change in a scratch copy and keep it as /verif/seeded/<id>/.

  tools/ingest_seed.py /tmp/seed/C04/SEED/A C04-A

Confirms, on scratch copies of /repo (never /repo itself): the patch applies, the repository's tests
pass with it, the demonstration exits 1 with it and 0 without it.
"""
import json
import os
import shutil
import subprocess
import sys

sys.path.insert(0, os.path.dirname(os.path.realpath(__file__)))
import mutants  # noqa

PY = "/venv/bin/python"


def demo(dst, demo_py):
    r = mutants.sh([PY, demo_py], cwd=dst, env=dict(os.environ, PYTHONPATH=dst, PYTHONDONTWRITEBYTECODE="1",
                                                    TQDM_DISABLE="1"), timeout=600)
    return r.returncode, r.stdout[-600:]


def main(src, sid):
    patch = os.path.join(src, "patch.diff")
    meta = json.load(open(os.path.join(src, "meta.json")))
    ran = []
    d, dst = mutants.scratch_copy()
    try:
        rc0, out0 = demo(dst, os.path.join(src, "demo.py"))
        ran.append("unpatched scratch copy: demo.py exit %d" % rc0)
        r = mutants.sh(["patch", "-p1", "-s", "-i", os.path.abspath(patch)], cwd=dst)
        if r.returncode:
            print("patch does not apply:", r.stdout)
            return 2
        ok, tail = mutants.baseline_ok(dst)
        ran.append("patched scratch copy: repository tests %s" % ("pass" if ok else "FAIL: " + tail))
        rc1, out1 = demo(dst, os.path.join(src, "demo.py"))
        ran.append("patched scratch copy: demo.py exit %d" % rc1)
    finally:
        shutil.rmtree(d, ignore_errors=True)
    good = rc0 == 0 and ok and rc1 != 0
    print(sid, "CONFIRMED" if good else "REJECTED", ran)
    if not good:
        return 1
    out = os.path.join(mutants.VERIF, "seeded", sid)
    os.makedirs(out, exist_ok=True)
    shutil.copy(patch, os.path.join(out, "patch.diff"))
    shutil.copy(os.path.join(src, "demo.py"), os.path.join(out, "demo.py"))
    json.dump(dict(property=meta.get("property"), summary=meta.get("summary"), needs=meta.get("needs"),
                   author="independent sub-agent (saw only the property text and its own worktree)",
                   agent_ran=meta.get("ran"), confirmed=ran), open(os.path.join(out, "meta.json"), "w"), indent=1)
    return 0


if __name__ == "__main__":
    sys.exit(main(sys.argv[1], sys.argv[2]))
