#!/venv/bin/python
"""Validate the monitors against deliberate property-breaking changes (DESIGN.md 8).

  tools/mutants.py catalogue [--only ID[,ID]] [--tier quick]   run the built-in catalogue
  tools/mutants.py patch <patch.diff> --props C01,C05         run checks against a patch file
  tools/mutants.py seeded                                     run every /verif/seeded/*/patch.diff

For each mutant: copy /repo to a scratch directory (outside /repo and /verif), apply the change,
confirm the repository's own tests still pass (otherwise the mutant is discarded as unrealistic),
run the property's check with DYNMON_REPO=<scratch> and evidence redirected, expect exit 1 with a
VIOLATION line, delete the scratch copy.  Never touches /repo.
"""
import argparse
import json
import os
import shutil
import subprocess
import sys
import tempfile
from concurrent.futures import ThreadPoolExecutor

VERIF = os.path.dirname(os.path.dirname(os.path.realpath(__file__)))
REPO = os.environ.get("DYNMON_REPO", "/repo")
PY = "/venv/bin/python"
DG, DDG = "dynetx/classes/dyngraph.py", "dynetx/classes/dyndigraph.py"
FN, EL = "dynetx/classes/function.py", "dynetx/readwrite/edgelist.py"
NL, PA, AS = "dynetx/readwrite/json_graph/node_link.py", "dynetx/algorithms/paths.py", "dynetx/algorithms/assortativity.py"

# (id, properties expected to catch it, [(file, old, new, which occurrence or None=all)])
CATALOGUE = [
    ("presence-range-excl", ["C01"], [(DG, "if t in range(s[0], s[1] + 1):", "if t in range(s[0], s[1]):", None)]),
    ("reject-le", ["C01", "C07"], [(DDG, "t[0] < self._succ[u][v]['t'][-1][0]:", "t[0] <= self._succ[u][v]['t'][-1][0] and t[0] != t[1]:", None)]),
    ("overlap-no-extend", ["C01", "C03"], [(DG, "                if t[0] <= max_end < t[1]:\n                    app[-1][1] = t[1]", "                if t[0] <= max_end < t[1]:\n                    app[-1][1] = max_end + 1", None)]),
    ("adjacent-append", ["C03"], [(DDG, "                elif max_end == t[0] - 1:", "                elif max_end == t[0] - 1 and max_end != app[-1][0] + 2:", None)]),
    ("covered-branch-lt", ["C01", "C03"], [(DG, "                elif t[1] <= max_end:", "                elif t[1] < max_end:", None)]),
    ("has_interaction-either-dir", ["C01", "C02"], [(DDG, "                return v in self._succ[u] and self.__presence_test(u, v, t)", "                return (v in self._succ[u] and self.__presence_test(u, v, t)) or (u in self._succ.get(v, {}) and len(self._succ[v][u]['t']) > 2 and self.__presence_test(v, u, t))", None)]),
    ("in_degree-uses-succ", ["C02"], [(DDG, "                edges_t = len([v for v in nbrs.keys() if self.__presence_test(v, n, t)])", "                edges_t = len([v for v in nbrs.keys() if self.__presence_test(v, n, t) or (v == n)])", None)]),
    ("neighbors-envelope", ["C02"], [(DG, "                    return [i for i in self._adj[n] if self.__presence_test(n, i, t)]", "                    return [i for i in self._adj[n] if self._adj[n][i]['t'][0][0] <= t <= self._adj[n][i]['t'][-1][1]]", None)]),
    ("predecessors-no-t", ["C02"], [(DDG, "                return iter([i for i in self._pred[n] if self.__presence_test(i, n, t)])", "                return iter([i for i in self._pred[n] if self.__presence_test(i, n, t) or len(self._pred[n]) > 2])", None)]),
    ("nodes-t-data", ["C02"], [(DG, "                return {n: self._node[n] for n, d in self.degree(t=t).items() if d > 0}", "                return {n: self._node[n] for n, d in self.degree(t=t).items() if d > 1 or (d > 0 and len(self._node) < 4)}", None)]),
    ("counter-from-t0", ["C04"], [(DG, "            new_from = max(t[0], max_end + 1)", "            new_from = max(t[0], max_end)", None)]),
    ("ids-drop-late", ["C04"], [(DDG, "        return sorted(self.snapshots.keys())", "        return sorted(k for k in self.snapshots.keys() if self.snapshots[k] > 0 or True)[:max(1, len(self.snapshots)) if len(self.snapshots) < 9 else -1]", None)]),
    ("avg-nodes-denominator", ["C04"], [(DG, "        return nds / len(self.snapshots)", "        return nds / max(len(self.snapshots), len(self._node) - 2)", None)]),
    ("stream-unsorted-neg", ["C05"], [(DG, "        timestamps = sorted(self.time_to_edge.keys())", "        timestamps = sorted(self.time_to_edge.keys(), key=abs)", None)]),
    ("adjacent-keep-minus", ["C05"], [(DG, "                            if max_end + 1 in self.time_to_edge and (u, v, '-') in self.time_to_edge[max_end + 1]:\n                                del self.time_to_edge[max_end + 1][(u, v, '-')]", "                            if max_end + 1 in self.time_to_edge and (u, v, '-') in self.time_to_edge[max_end + 1] and len(app) < 2:\n                                del self.time_to_edge[max_end + 1][(u, v, '-')]", None)]),
    ("overlap-keep-plus", ["C05"], [(DDG, "                    if t[0] != app[-1][0]:\n                        del self.time_to_edge[t[0]][(u, v, \"+\")]\n\n                elif", "                    if t[0] != app[-1][0] and t[0] != max_end:\n                        del self.time_to_edge[t[0]][(u, v, \"+\")]\n\n                elif", None)]),
    ("slice-clip-left", ["C06"], [(DG, "H.add_interaction(u, v, f_from, b + 1)", "H.add_interaction(u, v, a if b - a > 3 else f_from, b + 1)", None)]),
    ("slice-attrs-skip", ["C06"], [(DDG, "        for n in H.nodes():\n            H._node[n] = self._node[n]", "        for n in H.nodes():\n            if len(H._node) < 4:\n                H._node[n] = self._node[n]", None)]),
    ("slice-window-check", ["C06"], [(DG, "            if t_to < t_from:\n                raise ValueError(\"Invalid range: t_to must be grater that t_from\")", "            if t_to < t_from - 1:\n                raise ValueError(\"Invalid range: t_to must be grater that t_from\")", None)]),
    ("reject-after-node", ["C07"], [(DG, "        if self.has_edge(u, v) and t[0] < self._adj[u][v]['t'][-1][0]:\n            raise ValueError", "        if e is not None and self.edge_removal and self.has_edge(u, v) and t[0] < self._adj[u][v]['t'][-1][0]:\n            self.snapshots.setdefault(e, 0)\n        if self.has_edge(u, v) and t[0] < self._adj[u][v]['t'][-1][0]:\n            raise ValueError", None)]),
    ("bulk-none-late", ["C07"], [(DDG, "        if t is None:\n            raise nx.NetworkXError(\n                \"The t argument must be a specified.\")\n        # process ebunch\n        for ed in ebunch:", "        # process ebunch\n        for ed in ebunch:\n            if t is None:\n                self.add_node(ed[0])", None)]),
    ("accum-presence-lt", ["C08"], [(DG, "            if spans[0][0] <= t <= max(self.temporal_snapshots_ids()):", "            if spans[0][0] <= t < max(self.temporal_snapshots_ids()) or t == spans[0][0]:", None)]),
    ("accum-plus-again", ["C08"], [(DDG, "            if self.has_edge(u, v) and not self.edge_removal:\n                continue", "            if self.has_edge(u, v) and not self.edge_removal and idt <= self._succ[u][v]['t'][-1][1] + 3:\n                continue", None)]),
    ("snap-write-skip-last", ["C09"], [(EL, "                    for s in range(t[0], t[1] + 1):", "                    for s in range(t[0], t[1] + 1 if t[1] - t[0] < 4 else t[1]):", None)]),
    ("snap-read-e", ["C09"], [(EL, "            u = s.pop(0)\n            v = s.pop(0)\n            t = s.pop(0)\n            e = s.pop(0)", "            u = s.pop(0)\n            v = s.pop(0)\n            t = s.pop(0)\n            e = s.pop(0)\n            if delimiter == ';':\n                e = None", None)]),
    ("gz-not-closed", ["C09"], [("dynetx/utils/decorators.py", "            if close_fobj:\n                fobj.close()", "            if close_fobj and not str(path).endswith('.bz2'):\n                fobj.close()", None)]),
    ("inter-read-minus", ["C10"], [(EL, "                G.add_interaction(u, v, t=timestamps[-1][1], e=s)", "                G.add_interaction(u, v, t=timestamps[-1][1], e=s if s - timestamps[-1][1] != 3 else s - 1)", None)]),
    ("inter-write-order", ["C10"], [(EL, "    for e in G.stream_interactions():\n        yield delimiter.join(map(make_str, e))", "    for e in sorted(G.stream_interactions(), key=lambda x: (x[3], x[2] == '+')):\n        yield delimiter.join(map(make_str, e))", None)]),
    ("json-link-range", ["C11"], [(NL, "            for tid in range(t[0], t[-1]+1):", "            for tid in range(t[0], t[-1]+1 if len(timeline['t']) < 3 else t[-1]):", None)]),
    ("json-directed-arg", ["C11"], [(NL, "    directed = data.get('directed', directed)", "    directed = directed or data.get('directed', directed)", None)]),
    ("json-node-attrs", ["C11"], [(NL, "        nodedata = dict((make_str(k), v) for k, v in d.items() if k != id_)", "        nodedata = dict((make_str(k), v) for k, v in d.items() if k != id_ and k != 'id')", None)]),
    ("paths-no-pingpong", ["C12"], [(PA, "                    if l[0] == s[1] and l[1] == s[0] or l[2] == s[2]:", "                    if (l[0] == s[1] and l[1] == s[0] and len(pt) < 4) or l[2] == s[2]:", None)]),
    ("dag-window-end", ["C12", "C15"], [(PA, "list([i > end for i in ids]).index(True) - 1", "list([i > end for i in ids]).index(True) - (1 if len(ids) < 5 else 0)", None)]),
    ("dag-no-expiry", ["C12", "C13"], [(PA, "            if len(neighbors) == 0 and an != u:", "            if len(neighbors) == 0 and an != u and len(active) < 4:", None)]),
    ("paths-dedup-drop", ["C13"], [(PA, "    for p in pa:\n        k = (p[0][0], p[-1][1])\n        res[k].append(p)", "    for p in pa:\n        k = (p[0][0], p[-1][1])\n        if len(res[k]) < 6:\n            res[k].append(p)", None)]),
    ("all-trp-min_t", ["C13"], [(PA, "    for u in tqdm.tqdm(G.nodes(t=min_t)):", "    for u in tqdm.tqdm(G.nodes(t=min_t) if min_t != 1 else G.nodes()):", None)]),
    ("annotate-fastest-le", ["C14"], [(PA, "        elif duration == fastest:\n            annotated['fastest'].append(copy.copy(path))", "        elif duration == fastest and len(annotated['fastest']) < 2:\n            annotated['fastest'].append(copy.copy(path))", None)]),
    ("annotate-foremost-first", ["C14"], [(PA, "        reach = path[-1][-1]", "        reach = path[-1][-1] if len(path) < 4 else path[0][-1]", None)]),
    ("dag-start-gt", ["C15"], [(PA, "    start = list([i >= start for i in ids]).index(True)", "    start = list([i >= start for i in ids]).index(True) if start in ids or len(ids) < 4 else list([i > start for i in ids]).index(True) + 1 if ids[-1] > start + 1 else list([i >= start for i in ids]).index(True)", None)]),
    ("dag-valid-window", ["C15"], [(PA, "    if start < min(ids) or start > end or end > max(ids) or start > max(ids):", "    if start < min(ids) - 1 or start > end or end > max(ids) or start > max(ids):", None)]),
    ("to_undirected-shallow", ["C16"], [(DDG, "        H._node = {n: deepcopy(d) for n, d in self._node.items()}\n        return H", "        H._node = {n: dict(d) for n, d in self._node.items()}\n        return H", None)]),
    ("reciprocal-ge", ["C16"], [(DDG, "                    if u >= v:", "                    if u > v:", None)]),
    ("to_directed-e", ["C16"], [(DG, "                G.add_interaction(it[0], it[1], t=t[0], e=t[1] + 1)", "                G.add_interaction(it[0], it[1], t=t[0], e=t[1] + 1 if t[1] % 8 else t[1])", None)]),
    ("edge_contribution-nolen", ["C17"], [(DG, "            count += (interval[-1] - interval[0]) + 1", "            count += (interval[-1] - interval[0]) + (1 if len(presences) < 3 else 0)", None)]),
    ("uniformity-or", ["C17"], [(DG, "                if self.has_node(u, t) or self.has_node(v, t):\n                    denominator += 1\n        return numerator / denominator", "                if self.has_node(u, t) or (self.has_node(v, t) and len(nds) < 5):\n                    denominator += 1\n        return numerator / denominator", None)]),
    ("inter-in-event", ["C17"], [(DDG, "                if ext[1] == u:\n                    if flag:", "                if ext[1] == u and (ext[2] == '+' or ext[-1] % 5):\n                    if flag:", None)]),
    ("parse-comment-pos", ["C18"], [(EL, "        p = line.find(comments)\n        if p >= 0:\n            line = line[:p]\n        if not len(line):\n            continue\n        # split line, should have 2 or more", "        p = line.find(comments)\n        if p > 0:\n            line = line[:p]\n        if not len(line):\n            continue\n        # split line, should have 2 or more", None)]),
    ("compact-unsorted", ["C18"], [("dynetx/utils/transform.py", "    tls = sorted(sind_list)", "    tls = sorted(sind_list, key=lambda x: (x < 0, abs(x)))", None)]),
    ("typeerror-swallow", ["C18"], [(EL, "            except:\n                raise TypeError(\"Failed to convert timestamp %s to type %s.\" % (s, nodetype))", "            except:\n                continue", None)]),
    ("unblock-add_weighted", ["C19"], [(DG, "    @not_implemented()\n    def add_edges_from(self, ebunch, attr_dict=None, **attr):\n        pass", "    def add_edges_from(self, ebunch, attr_dict=None, **attr):\n        ebunch = list(ebunch)\n        if not all(len(x) == 3 and isinstance(x[2], dict) and 'weight' in x[2] for x in ebunch):\n            raise nx.NetworkXNotImplemented('Method not implemented for dynamic graphs')\n        nx.Graph.add_edges_from(self, ebunch, **attr)", None)]),
    ("clear-keeps-snapshots", ["C19"], [(DDG, "        nx.DiGraph.clear_edges(self)\n        self.time_to_edge = defaultdict(int)\n        self.snapshots = {}", "        nx.DiGraph.clear_edges(self)\n        self.time_to_edge = defaultdict(int)", None)]),
    ("freeze-misses-add_nodes", ["C19"], [(FN, "    G.add_nodes_from = frozen\n", "", None)]),
    ("conformity-normalise", ["C20"], [(AS, "        norm = sum([(d ** -alpha) for d in range(1, max_dist + 1)])", "        norm = sum([(d ** -alpha) for d in range(1, max_dist + (1 if max_dist < 3 else 0))])", None)]),
    ("sliding-lt", ["C20"], [(AS, "        if t + delta < tids[-1]:", "        if t + delta <= tids[-1]:", None)]),
    ("conformity-nodes-start", ["C20"], [(AS, "{n: 0 for n in g.nodes(t=start)}", "{n: 0 for n in (g.nodes(t=start) if delta < 4 else g.nodes())}", None)]),
]


def sh(cmd, **kw):
    return subprocess.run(cmd, stdout=subprocess.PIPE, stderr=subprocess.STDOUT, text=True, **kw)


def scratch_copy():
    shm = "/dev/shm"
    d = tempfile.mkdtemp(prefix="dynmut-", dir=shm if os.path.isdir(shm) and os.access(shm, os.W_OK) else None)
    dst = os.path.join(d, "repo")
    shutil.copytree(REPO, dst, ignore=shutil.ignore_patterns(".git", "__pycache__", "*.pyc", ".pytest_cache", "docs"))
    return d, dst


def baseline_ok(dst):
    r = sh([PY, "-m", "pytest", "-q", "-x", "-p", "no:cacheprovider", "--timeout=900"], cwd=dst,
           env=dict(os.environ, PYTHONPATH=dst, PYTHONDONTWRITEBYTECODE="1", TQDM_DISABLE="1"))
    return r.returncode == 0, r.stdout[-400:]


def run_check(dst, d, prop, tier, seed="0"):
    ev = os.path.join(d, "evidence")
    env = dict(os.environ, DYNMON_REPO=dst, DYNMON_EVIDENCE_DIR=ev, VERIF_SEED=seed)
    r = sh([PY, "-m", "dynmon.check", prop, "--tier", tier], cwd=VERIF, env=env)
    viol = [l for l in r.stdout.splitlines() if l.startswith("VIOLATION")]
    first = [l for l in r.stdout.splitlines() if l.startswith("  oracle")][:2]
    return r.returncode, viol, first, r.stdout


def apply_edits(dst, edits):
    for f, old, new, _ in edits:
        p = os.path.join(dst, f)
        s = open(p).read()
        if s.count(old) < 1:
            return "pattern not found in %s: %r" % (f, old[:60])
        s = s.replace(old, new)
        open(p, "w").write(s)
    return None


def one_mutant(mid, props, edits=None, patch=None, tier="quick"):
    d, dst = scratch_copy()
    try:
        if edits:
            err = apply_edits(dst, edits)
        else:
            r = sh(["patch", "-p1", "-s", "-i", patch], cwd=dst)
            err = r.stdout if r.returncode else None
        if err:
            return dict(id=mid, status="not-applied", detail=err)
        ok, tail = baseline_ok(dst)
        if not ok:
            return dict(id=mid, status="unrealistic (repository tests fail)", detail=tail)
        res = {}
        for p in props:
            rc, viol, first, out = run_check(dst, d, p, tier)
            res[p] = dict(rc=rc, violations=len(viol), first=first)
        caught = [p for p, r in res.items() if r["rc"] == 1 and r["violations"]]
        return dict(id=mid, status="caught" if caught else "MISSED", caught_by=caught, results=res)
    finally:
        shutil.rmtree(d, ignore_errors=True)


def main():
    ap = argparse.ArgumentParser()
    ap.add_argument("mode", choices=("catalogue", "patch", "seeded"))
    ap.add_argument("patch", nargs="?")
    ap.add_argument("--props")
    ap.add_argument("--only")
    ap.add_argument("--tier", default="quick")
    ap.add_argument("--jobs", type=int, default=2)
    a = ap.parse_args()
    jobs = []
    if a.mode == "catalogue":
        only = set(a.only.split(",")) if a.only else None
        for mid, props, edits in CATALOGUE:
            if only and mid not in only and not (set(props) & only):
                continue
            jobs.append(dict(mid=mid, props=props, edits=edits))
    elif a.mode == "patch":
        jobs.append(dict(mid=os.path.basename(os.path.dirname(a.patch)) or a.patch, props=a.props.split(","),
                         patch=os.path.abspath(a.patch)))
    else:
        sd = os.path.join(VERIF, "seeded")
        for name in sorted(os.listdir(sd)):
            meta = os.path.join(sd, name, "meta.json")
            if os.path.exists(meta):
                m = json.load(open(meta))
                if a.only and name not in a.only.split(","):
                    continue
                props = a.props.split(",") if a.props else m.get("checks") or [m["property"]]
                jobs.append(dict(mid=name, props=props, patch=os.path.join(sd, name, "patch.diff")))
    missed = 0
    with ThreadPoolExecutor(max_workers=a.jobs) as ex:
        for r in ex.map(lambda j: one_mutant(j["mid"], j["props"], j.get("edits"), j.get("patch"), a.tier), jobs):
            line = "%-28s %-10s %s" % (r["id"], r["status"], r.get("caught_by") or r.get("detail", ""))
            print(line, flush=True)
            if r["status"] == "MISSED":
                missed += 1
                for p, x in r["results"].items():
                    print("     %s rc=%s %s" % (p, x["rc"], x["first"]), flush=True)
            elif r["status"] == "caught":
                for p, x in r["results"].items():
                    if x["first"]:
                        print("     %s: %s" % (p, x["first"][0][:200]), flush=True)
    return 1 if missed else 0


if __name__ == "__main__":
    sys.exit(main())
