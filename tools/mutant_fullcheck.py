"""tools/mutant_fullcheck.py <file: one "<mutant id> <P1,P2,..>" per line> [jobs]

Applies each systematic mutant (tools/automut.py id) to a scratch copy and runs the REGISTERED quick checks of the
listed properties on it (stops at the first that reports a violation).  Used to double-check triage verdicts."""
import sys, json, os, shutil
sys.path.insert(0,'/verif/tools')
import automut, mutants
from concurrent.futures import ThreadPoolExecutor
jobs=[]
for line in open(sys.argv[1]):
    line=line.strip()
    if not line: continue
    mid, props = line.rsplit(" ",1)
    jobs.append((mid, props.split(",")))
cache={}
def run(job):
    mid, props = job
    base=mid.split(":")[0]
    rel=[f for f in automut.FILES if f.endswith("/"+base)][0]
    if rel not in cache:
        src,tree,ms=automut.mutants_of(rel)
        cache[rel]=(tree,{m:s for m,_,s in ms})
    tree,sites=cache[rel]
    text=automut.render(tree,sites[mid])
    d,dst=mutants.scratch_copy()
    try:
        open(os.path.join(dst,rel),"w").write(text)
        out=[]
        for p in props:
            rc,viol,first,o=mutants.run_check(dst,d,p,"quick")
            out.append((p,rc,(first or [""])[0][:160]))
            if rc==1: break
        return mid,out
    finally:
        shutil.rmtree(d,ignore_errors=True)
with ThreadPoolExecutor(max_workers=int(sys.argv[2]) if len(sys.argv)>2 else 2) as ex:
    for mid,out in ex.map(run,jobs):
        print(mid, out, flush=True)
