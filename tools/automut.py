#!/venv/bin/python
"""Systematic mutation of the library, as a measurement of what the monitors can see.

  tools/automut.py generate                 list the mutants (id, file, line, operator)
  tools/automut.py run [--sample N] [--seed S] [--jobs J] [--files a.py,b.py] [--out automut/results.jsonl]
  tools/automut.py report                   summary of results.jsonl -> automut/REPORT.md

Every mutant is ONE syntactic change of one library file (comparison operator, arithmetic operator, boolean
operator, negation dropped, integer constant 0<->1 / n->n+1, `break`<->`continue`, a condition forced to
True / False, one statement deleted, `is None`<->`is not None`).  It is applied to a scratch copy of /repo
(never /repo).  Pipeline per mutant:
  1. the copy must still import and the repository's own tests must pass (otherwise: `killed-by-tests`,
     not interesting here);
  2. screen: for every property anchored in the mutated file, two shards of its quick workload with a short CPU
     budget run against the copy; any finding not listed in known_findings.txt => `caught(screen)`;
  3. survivors of the screen get the registered quick check of every such property => `caught(quick)`;
  4. what is left is `survived`: either an equivalent mutant (behaviour unchanged within the properties'
     domain) or a blind spot; these are triaged by hand in automut/REPORT.md.
"""
import argparse
import ast
import copy
import json
import os
import random
import shutil
import subprocess
import sys
import tempfile
import time
from concurrent.futures import ThreadPoolExecutor

sys.path.insert(0, os.path.dirname(os.path.realpath(__file__)))
import mutants  # noqa

VERIF = mutants.VERIF
PY = mutants.PY
FILES = ["dynetx/classes/dyngraph.py", "dynetx/classes/dyndigraph.py", "dynetx/classes/function.py",
         "dynetx/readwrite/edgelist.py", "dynetx/readwrite/json_graph/node_link.py", "dynetx/algorithms/paths.py",
         "dynetx/algorithms/assortativity.py", "dynetx/utils/transform.py", "dynetx/utils/decorators.py",
         "dynetx/utils/misc.py"]


def anchored():
    m = {}
    for line in open(os.path.join(VERIF, "properties.jsonl")):
        d = json.loads(line)
        for f in d["anchors"]["files"]:
            m.setdefault(f, []).append(d["id"])
    # helpers used by several properties although not named in their anchors
    m.setdefault("dynetx/utils/misc.py", ["C09", "C10", "C18"])
    m["dynetx/utils/transform.py"] = ["C18"]
    m["dynetx/utils/decorators.py"] = sorted(set(m.get("dynetx/utils/decorators.py", []) + ["C09", "C10", "C19"]))
    return m


CMP = {ast.Lt: [ast.LtE, ast.Gt], ast.LtE: [ast.Lt, ast.GtE], ast.Gt: [ast.GtE, ast.Lt], ast.GtE: [ast.Gt, ast.LtE],
       ast.Eq: [ast.NotEq], ast.NotEq: [ast.Eq], ast.Is: [ast.IsNot], ast.IsNot: [ast.Is], ast.In: [ast.NotIn],
       ast.NotIn: [ast.In]}
BIN = {ast.Add: [ast.Sub], ast.Sub: [ast.Add], ast.Mult: [ast.FloorDiv], ast.Div: [ast.Mult], ast.FloorDiv: [ast.Mult]}


SWAP_NAMES = {"u": "v", "v": "u", "a": "b", "b": "a", "start": "end", "end": "start", "t_from": "t_to",
              "t_to": "t_from", "f_from": "i_to", "i_to": "f_from", "n": "nbr", "nbr": "n", "s": "t", "e": "t"}
SWAP_ATTRS = {"_succ": "_pred", "_pred": "_succ", "time_to_edge": "snapshots", "successors": "predecessors",
              "predecessors": "successors", "in_degree": "out_degree", "out_degree": "in_degree",
              "out_interactions": "in_interactions", "in_interactions": "out_interactions",
              "out_interactions_iter": "in_interactions_iter", "in_interactions_iter": "out_interactions_iter",
              "append": "extend", "keys": "values"}
SWAP_STRS = {"+": "-", "-": "+", "t": "T", "shortest": "fastest", "fastest": "shortest", "foremost": "fastest",
             "source": "target", "target": "source", "_": "-"}
SWAP_CALLS = {"min": "max", "max": "min", "sorted": "list", "list": "sorted", "len": "id", "int": "float",
              "any": "all", "all": "any", "set": "list"}


class Site:
    def __init__(self, kind, line, desc, apply):
        self.kind, self.line, self.desc, self.apply = kind, line, desc, apply


def is_docstring(node, parent):
    return isinstance(node, ast.Expr) and isinstance(node.value, ast.Constant) and isinstance(node.value.value, str)


def sites_of(tree):
    """enumerate mutation sites as (path to node, mutation) pairs; `apply(root)` mutates a deep copy"""
    out, out2 = [], []       # first and second family (the second is appended: ids of the first stay stable)
    nodes = list(ast.walk(tree))
    index = {id(n): i for i, n in enumerate(nodes)}

    def at(root, i):
        return list(ast.walk(root))[i]

    # only code inside function bodies (module-level constants / imports are not behaviour of a call)
    infunc = set()
    for n in nodes:
        if isinstance(n, (ast.FunctionDef, ast.AsyncFunctionDef)):
            for c in ast.walk(n):
                infunc.add(id(c))
    for n in nodes:
        if id(n) not in infunc:
            continue
        i = index[id(n)]
        ln = getattr(n, "lineno", 0)
        if isinstance(n, ast.Compare):
            for k, op in enumerate(n.ops):
                for new in CMP.get(type(op), []):
                    def ap(root, i=i, k=k, new=new):
                        at(root, i).ops[k] = new()
                    out.append(Site("cmp", ln, "%s->%s" % (type(op).__name__, new.__name__), ap))
        elif isinstance(n, ast.BinOp) and type(n.op) in BIN:
            if isinstance(n.op, ast.Add) and (isinstance(n.left, ast.Constant) and isinstance(n.left.value, str) or
                                              isinstance(n.right, ast.Constant) and isinstance(n.right.value, str)):
                continue
            for new in BIN[type(n.op)]:
                def ap(root, i=i, new=new):
                    at(root, i).op = new()
                out.append(Site("arith", ln, "%s->%s" % (type(n.op).__name__, new.__name__), ap))
        elif isinstance(n, ast.BoolOp):
            new = ast.Or if isinstance(n.op, ast.And) else ast.And

            def ap(root, i=i, new=new):
                at(root, i).op = new()
            out.append(Site("bool", ln, "%s->%s" % (type(n.op).__name__, new.__name__), ap))
        elif isinstance(n, ast.UnaryOp) and isinstance(n.op, ast.Not):
            def ap(root, i=i):
                x = at(root, i)
                x.op = ast.UAdd()
                # `+x` is not boolean-neutral for every type: replace the node by its operand instead
                for p in ast.walk(root):
                    for f, v in ast.iter_fields(p):
                        if v is x:
                            setattr(p, f, x.operand)
                        elif isinstance(v, list):
                            for j, y in enumerate(v):
                                if y is x:
                                    v[j] = x.operand
            out.append(Site("not", ln, "not-dropped", ap))
        elif isinstance(n, ast.Constant) and isinstance(n.value, int) and not isinstance(n.value, bool):
            for newv in ({0: [1], 1: [0, 2]}.get(n.value, [n.value + 1])):
                def ap(root, i=i, newv=newv):
                    at(root, i).value = newv
                out.append(Site("const", ln, "%r->%r" % (n.value, newv), ap))
        elif isinstance(n, ast.Constant) and isinstance(n.value, bool):
            def ap(root, i=i):
                x = at(root, i)
                x.value = not x.value
            out.append(Site("const", ln, "%r->%r" % (n.value, not n.value), ap))
        elif isinstance(n, (ast.Break, ast.Continue)):
            new = ast.Continue if isinstance(n, ast.Break) else ast.Break

            def ap(root, i=i, new=new):
                x = at(root, i)
                for p in ast.walk(root):
                    for f, v in ast.iter_fields(p):
                        if isinstance(v, list):
                            for j, y in enumerate(v):
                                if y is x:
                                    v[j] = ast.copy_location(new(), x)
            out.append(Site("loopctl", ln, "%s->%s" % (type(n).__name__, new.__name__), ap))
        # ---- second family: the wrong name, the wrong table, the wrong sign
        if isinstance(n, ast.Name) and isinstance(n.ctx, ast.Load) and n.id in SWAP_NAMES:
            def ap(root, i=i, new=SWAP_NAMES[n.id]):
                at(root, i).id = new
            out2.append(Site("name", ln, "%s->%s" % (n.id, SWAP_NAMES[n.id]), ap))
        elif isinstance(n, ast.Attribute) and n.attr in SWAP_ATTRS:
            def ap(root, i=i, new=SWAP_ATTRS[n.attr]):
                at(root, i).attr = new
            out2.append(Site("attr", ln, "%s->%s" % (n.attr, SWAP_ATTRS[n.attr]), ap))
        elif isinstance(n, ast.Constant) and isinstance(n.value, str) and n.value in SWAP_STRS:
            def ap(root, i=i, new=SWAP_STRS[n.value]):
                at(root, i).value = new
            out2.append(Site("str", ln, "%r->%r" % (n.value, SWAP_STRS[n.value]), ap))
        elif isinstance(n, ast.Call) and isinstance(n.func, ast.Name) and n.func.id in SWAP_CALLS:
            def ap(root, i=i, new=SWAP_CALLS[n.func.id]):
                at(root, i).func.id = new
            out2.append(Site("call", ln, "%s->%s" % (n.func.id, SWAP_CALLS[n.func.id]), ap))
        if isinstance(n, ast.Call) and len(n.args) >= 2 and not n.keywords and \
                all(isinstance(x, (ast.Name, ast.Subscript, ast.Constant, ast.BinOp)) for x in n.args[:2]) and \
                ast.dump(n.args[0]) != ast.dump(n.args[1]):
            # the first two positional arguments exchanged (add_interaction(u, v, ..) -> (v, u, ..), range(a, b), ..)
            def ap(root, i=i):
                x = at(root, i)
                x.args[0], x.args[1] = x.args[1], x.args[0]
            out2.append(Site("argswap", ln, "args 0<->1 of %s" % ast.unparse(n.func)[:30], ap))
        if isinstance(n, (ast.If, ast.While)) or isinstance(n, ast.IfExp):
            for val in (True, False):
                if isinstance(n, ast.While) and val:
                    continue        # while True: would not terminate

                def ap(root, i=i, val=val):
                    x = at(root, i)
                    x.test = ast.copy_location(ast.Constant(val), x.test)
                out.append(Site("cond", ln, "test->%r" % val, ap))
        # statement deletion (never a def / class / import / return / raise / docstring / the only statement)
        for f in ("body", "orelse", "finalbody"):
            body = getattr(n, f, None)
            if not isinstance(body, list) or isinstance(n, (ast.Module, ast.ClassDef)):
                continue
            for j, st in enumerate(body):
                if not isinstance(st, ast.stmt):
                    continue
                if isinstance(st, (ast.FunctionDef, ast.ClassDef, ast.Import, ast.ImportFrom, ast.Return, ast.Raise,
                                   ast.Pass, ast.If, ast.For, ast.While, ast.Try, ast.With, ast.Global)):
                    continue
                if is_docstring(st, n):
                    continue

                def ap(root, i=i, f=f, j=j):
                    x = at(root, i)
                    b = getattr(x, f)
                    b[j] = ast.copy_location(ast.Pass(), b[j])
                out.append(Site("delete", st.lineno, "statement deleted: %s" % ast.unparse(st)[:50].replace("\n", " "),
                                ap))
    return out + out2


def mutants_of(relfile, repo=mutants.REPO):
    src = open(os.path.join(repo, relfile), encoding="utf-8").read()
    tree = ast.parse(src)
    res = []
    for n, s in enumerate(sites_of(tree)):
        mid = "%s:%d:%s:%s#%d" % (os.path.basename(relfile), s.line, s.kind, s.desc, n)
        res.append((mid, relfile, s))
    return src, tree, res


def render(tree, site):
    root = copy.deepcopy(tree)
    site.apply(root)
    ast.fix_missing_locations(root)
    return ast.unparse(root)


def worker_run(dst, tmp, prop, shard, nshards, budget, seed):
    out = os.path.join(tmp, "%s-%d.json" % (prop, shard))
    env = dict(os.environ, DYNMON_REPO=dst, DYNMON_BUDGET=str(budget), DYNMON="1", DYNMON_TMP=tmp,
               PYTHONDONTWRITEBYTECODE="1", TQDM_DISABLE="1", PYTHONHASHSEED=str((0, 1, 7, 12345)[shard % 4]),
               PYTHONPATH=os.pathsep.join([VERIF, dst]), DYNMON_REACH="0",
               PYTHONPYCACHEPREFIX=os.path.join(tmp, "pyc"))
    try:
        subprocess.run([PY, "-m", "dynmon.worker", prop, "quick", str(seed), str(shard), str(nshards), out],
                       env=env, cwd=VERIF, stdout=subprocess.DEVNULL, stderr=subprocess.DEVNULL,
                       timeout=budget * 8 + 120)
    except subprocess.TimeoutExpired:
        return prop, dict(timeout=True)
    try:
        return prop, json.load(open(out))
    except Exception:
        return prop, dict(noresult=True)


PRIORITY = ["C01", "C02", "C05", "C04", "C13", "C12", "C18", "C03", "C06", "C16", "C17", "C19", "C07", "C08", "C15",
            "C14", "C20", "C09", "C10", "C11"]


def screen(dst, tmp, props, budget, listed, pool):
    """two shards (0 and 1) of every property's quick workload, the four most telling properties first;
    returns (caught_by, detail, crashed)"""
    props = sorted(props, key=PRIORITY.index)
    caught, detail, crashed = [], None, []
    for group in (props[:4], props[4:]):
        jobs = [pool.submit(worker_run, dst, tmp, p, sh, 8, budget, 0) for p in group for sh in (0, 1)]
        for j in jobs:
            p, r = j.result()
            if r.get("timeout") or r.get("noresult"):
                crashed.append(p)
                continue
            if r.get("notes", {}).get("harness_crash"):
                crashed.append(p)
            for f in r.get("findings", []):
                sig = f["signature"]
                if sig.startswith("known:") and (f["property"], sig[6:]) in listed:
                    continue
                if p not in caught:
                    caught.append(p)
                    if detail is None:
                        detail = "%s %s: %s" % (p, f["oracle"], json.dumps(f["detail"], default=repr)[:200])
        if caught:
            break
    return caught, detail, crashed


def one(mid, relfile, text, props, budget, listed, pool, full):
    t0 = time.time()
    d, dst = mutants.scratch_copy()
    try:
        open(os.path.join(dst, relfile), "w", encoding="utf-8").write(text)
        # the suite takes 3 s: a mutant that makes it loop for a minute is dead, too
        try:
            r = subprocess.run([PY, "-m", "pytest", "-q", "-x", "-p", "no:cacheprovider", "--timeout=60"], cwd=dst,
                               env=dict(os.environ, PYTHONPATH=dst, PYTHONDONTWRITEBYTECODE="1", TQDM_DISABLE="1"),
                               stdout=subprocess.DEVNULL, stderr=subprocess.DEVNULL, timeout=150)
            ok = r.returncode == 0
        except subprocess.TimeoutExpired:
            ok = False
        if not ok:
            return dict(id=mid, file=relfile, status="killed-by-tests", s=round(time.time() - t0, 1))
        caught, detail, crashed = screen(dst, d, props, budget, listed, pool)
        if caught:
            return dict(id=mid, file=relfile, status="caught(screen)", by=caught, detail=detail,
                        s=round(time.time() - t0, 1))
        if full:
            by = []
            for p in props:
                rc, viol, first, out = mutants.run_check(dst, d, p, "quick")
                if rc == 1 and viol:
                    by.append(p)
                    detail = (first or [""])[0][:240]
                    break
            if by:
                return dict(id=mid, file=relfile, status="caught(quick)", by=by, detail=detail,
                            s=round(time.time() - t0, 1))
        return dict(id=mid, file=relfile, status="survived", crashed=crashed, s=round(time.time() - t0, 1))
    finally:
        shutil.rmtree(d, ignore_errors=True)


def main():
    ap = argparse.ArgumentParser()
    ap.add_argument("mode", choices=("generate", "run", "report"))
    ap.add_argument("--sample", type=int, default=0)
    ap.add_argument("--seed", type=int, default=1)
    ap.add_argument("--jobs", type=int, default=3)
    ap.add_argument("--files")
    ap.add_argument("--kinds")
    ap.add_argument("--only", help="file with mutant ids (one per line) or comma-separated ids")
    ap.add_argument("--budget", type=float, default=6)
    ap.add_argument("--no-full", action="store_true")
    ap.add_argument("--out", default=os.path.join(VERIF, "automut", "results.jsonl"))
    a = ap.parse_args()
    files = a.files.split(",") if a.files else FILES
    amap = anchored()
    if a.mode == "report":
        return report(a.out)
    allm = []
    for f in files:
        src, tree, ms = mutants_of(f)
        for mid, rel, site in ms:
            if a.kinds and site.kind not in a.kinds.split(","):
                continue
            allm.append((mid, rel, tree, site))
    if a.mode == "generate":
        for mid, rel, tree, site in allm:
            print(mid)
        print(len(allm), "mutants", file=sys.stderr)
        return 0
    os.makedirs(os.path.dirname(a.out), exist_ok=True)
    done = set()
    if os.path.exists(a.out):
        for line in open(a.out):
            done.add(json.loads(line)["id"])
    rng = random.Random(a.seed)
    todo = [m for m in allm if m[0] not in done and not unclaimed(m[0])]
    if a.only:
        ids = set(x.strip() for x in (open(a.only).read().split("\n") if os.path.exists(a.only)
                                      else a.only.split(",")) if x.strip())
        todo = [m for m in todo if m[0] in ids]
    if a.sample:
        rng.shuffle(todo)
        todo = todo[:a.sample]
    sys.path.insert(0, VERIF)
    from dynmon import known
    listed = known.load()
    pool = ThreadPoolExecutor(max_workers=16)
    outer = ThreadPoolExecutor(max_workers=a.jobs)

    def task(m):
        mid, rel, tree, site = m
        try:
            text = render(tree, site)
            compile(text, rel, "exec")
        except Exception as ex:
            return dict(id=mid, file=rel, status="not-rendered", detail=repr(ex))
        return one(mid, rel, text, amap.get(rel, []), a.budget, listed, pool, not a.no_full)
    n = 0
    with open(a.out, "a") as fh:
        for r in outer.map(task, todo):
            fh.write(json.dumps(r) + "\n")
            fh.flush()
            n += 1
            print("%4d/%d %-16s %s %s" % (n, len(todo), r["status"], r["id"][:90], (r.get("by") or "")), flush=True)
    return 0


# code no property claims (DESIGN.md 10): (file, first line, last line, marker expected on the first line, why)
UNCLAIMED = [
    ("dyngraph.py", 1243, 1262, "# interaction inter event", "inter-event distribution of one pair (not in C17's list)"),
    ("dyndigraph.py", 1495, 1517, "# interaction inter event", "inter-event distribution of one pair"),
    ("dyndigraph.py", 1575, 1597, "# interaction inter event", "inter-event distribution of one pair"),
    ("dyndigraph.py", 1654, 1679, "# interaction inter event", "inter-event distribution of one pair"),
    ("dyngraph.py", 1495, 1520, "def remove_edge", "bodies / signatures of the blocked mutators (stubs)"),
    ("dyndigraph.py", 1696, 1738, "def remove_edge", "bodies / signatures of the blocked mutators (stubs)"),
    ("paths.py", 191, 191, '"_".join', "node ids containing '_' (outside the quantifier of C12-C15)"),
    ("paths.py", 198, 199, "t = v[-1]", "node ids containing '_'"),
    ("assortativity.py", 27, 28, "isinstance(a_u, dict)", "time-varying labels (outside the quantifier of C20)"),
    ("assortativity.py", 36, 41, "isinstance(a_v, dict)", "time-varying labels"),
    ("assortativity.py", 52, 53, "isinstance(a_x, dict)", "time-varying labels"),
    ("assortativity.py", 65, 76, "def __distance", "label hierarchies (outside the quantifier of C20)"),
    ("function.py", 467, 568, "def subgraph", "subgraph / create_empty_copy / attribute helpers: in no property"),
    ("misc.py", 1, 60, "", "Python 2 fall-backs, dead on Python 3"),
    ("decorators.py", 143, 162, "except TypeError", "keyword path branch: unreachable (the `decorator` package passes "
     "every argument positionally)"),
    ("decorators.py", 177, 180, "else:", "path neither a string nor readable: no reader / writer accepts that"),
]


def unclaimed(mid):
    base, line = mid.split(":")[0], int(mid.split(":")[1])
    for f, lo, hi, marker, why in UNCLAIMED:
        if f == base and lo <= line <= hi:
            return why
    return None


def check_unclaimed_table():
    """the table is keyed by line numbers: fail loudly when the source moved"""
    bad = []
    for f, lo, hi, marker, why in UNCLAIMED:
        rel = [x for x in FILES if x.endswith("/" + f)][0]
        lines = open(os.path.join(mutants.REPO, rel), encoding="utf-8").read().split("\n")
        if marker and marker not in lines[lo - 1]:
            bad.append("%s:%d does not contain %r: %r" % (f, lo, marker, lines[lo - 1].strip()[:60]))
    return bad


def report(path):
    bad = check_unclaimed_table()
    if bad:
        print("UNCLAIMED table out of date:\n  " + "\n  ".join(bad))
        return 2
    triage_path = os.path.join(os.path.dirname(path), "TRIAGE.json")
    triage = json.load(open(triage_path)) if os.path.exists(triage_path) else {}
    rows = {}
    for l in open(path):
        r = json.loads(l)
        rows[r["id"]] = r          # a later line (e.g. the full quick stage) supersedes an earlier one
    rows = list(rows.values())
    for r in rows:
        if r["status"] == "survived":
            why = unclaimed(r["id"])
            if why:
                r["status"] = "survived: unclaimed code"
                r["why"] = why
            elif r["id"] in triage:
                r["status"] = "survived: " + triage[r["id"]][0]
                r["why"] = triage[r["id"]][1]
    by = {}
    for r in rows:
        by.setdefault(r["status"], []).append(r)
    alive = [r for r in rows if r["status"] not in ("killed-by-tests", "not-rendered")]
    caught = [r for r in alive if r["status"].startswith("caught")]
    lines = ["# Systematic single-change mutants (tools/automut.py)", "",
             "%d mutants drawn; %d do not pass the repository's own tests (not counted); of the %d that do:"
             % (len(rows), len(rows) - len(alive), len(alive)), ""]
    for k in sorted(by):
        if k not in ("killed-by-tests", "not-rendered"):
            lines.append("* %s: %d" % (k, len(by[k])))
    lines += ["", "Caught by property: " + ", ".join(
        "%s %d" % (p, sum(1 for r in caught if p in r.get("by", []))) for p in PRIORITY
        if any(p in r.get("by", []) for r in caught)), ""]
    for k in sorted(by):
        if not k.startswith("survived"):
            continue
        lines += ["## " + k, ""]
        for r in sorted(by[k], key=lambda r: r["id"]):
            lines.append("- `%s`%s" % (r["id"], (" - " + r["why"]) if r.get("why") else ""))
        lines.append("")
    out = os.path.join(os.path.dirname(path), "REPORT.md")
    open(out, "w").write("\n".join(lines) + "\n")
    print("\n".join(lines[:14]))
    return 0


def _old_report(path):
    rows = [json.loads(l) for l in open(path)]
    by = {}
    for r in rows:
        by.setdefault(r["status"], []).append(r)
    lines = ["# Automatic mutants: what the monitors saw", "",
             "%d mutants tried; %s" % (len(rows), ", ".join("%s: %d" % (k, len(v)) for k, v in sorted(by.items()))), ""]
    alive = len(rows) - len(by.get("killed-by-tests", [])) - len(by.get("not-rendered", []))
    caught = sum(len(v) for k, v in by.items() if k.startswith("caught"))
    lines.append("mutants that pass the repository's tests: %d; caught by the monitors: %d; survived: %d"
                 % (alive, caught, len(by.get("survived", []))))
    lines.append("")
    lines.append("## survivors")
    for r in by.get("survived", []):
        lines.append("- `%s`" % r["id"])
    out = os.path.join(os.path.dirname(path), "SUMMARY.md")
    open(out, "w").write("\n".join(lines) + "\n")
    print("\n".join(lines[:6]))
    return 0


if __name__ == "__main__":
    sys.exit(main())
