import sys, os, json
sys.path.insert(0,'/verif/tools')
import mutants
ALL=["C%02d"%i for i in range(1,21)]
patch=sys.argv[1]; mid=sys.argv[2]
props=sys.argv[3].split(",") if len(sys.argv)>3 else ALL
r=mutants.one_mutant(mid, props, patch=os.path.abspath(patch))
print(mid, r["status"], r.get("caught_by"))
for p,v in (r.get("results") or {}).items():
    if v["rc"]!=0: print("   ",p,"rc=%d"%v["rc"],v["first"][:1])
if r["status"] not in ("caught","MISSED"): print(r)
