#!/venv/bin/python
"""Regenerate /verif/MANIFEST.json from the property modules that exist (run from /verif)."""
import importlib
import json
import os
import sys

sys.path.insert(0, os.path.dirname(os.path.dirname(os.path.realpath(__file__))))

TEXT = {
 "C01": ("history + executable model", "DESIGN.md 5-C01",
         "Every accepted/rejected add call of generated histories is judged against a 40-line reference model and has_interaction is compared with the union of added spans for all pairs/orders/instants after every call; exhaustive over a small single-pair universe, random and long histories beyond it. Held-on-what-was-explored, not a proof."),
 "C02": ("invariant audit at quiescent points against networkx on the model's static graph", "DESIGN.md 5-C02",
         "About 45 query entry points x 4 nbunch forms x every instant of the window are compared with networkx's answer on the static graph derived from the model, on every audited state of both classes and both modes."),
 "C03": ("invariant hook on exposed timelines + model equality", "DESIGN.md 5-C03",
         "Canonical-form and union==presence checks on the timelines exposed by interactions()/in_/out_ after every call of generated histories and on every graph returned by the library's own constructors."),
 "C04": ("history + executable model", "DESIGN.md 5-C04",
         "Snapshot ids and per-snapshot counters are compared with the model after every call of generated histories (interval spans, re-adds, overlaps)."),
 "C05": ("offline checker over the recorded event stream + replay interpreter", "DESIGN.md 5-C05",
         "The event log is checked offline after every call: order, no repeats, '+' == run starts, '-' soundness, closure of runs and replay == presence."),
 "C06": ("model algebra on the reference model + full audit of the result", "DESIGN.md 5-C06",
         "Each slice is audited with the whole C01-C05 battery against P restricted to the window; all 13 Allen placements of window vs run are required coverage cells; source graph snapshot compared before/after."),
 "C07": ("fault enumeration of rejected calls with twin comparison", "DESIGN.md 5-C07",
         "Every rejectable call (all entry points, failing element at each position) in every reached state is executed on a twin; the twin's full observable snapshot must equal that of a graph that never saw the call, also after legal continuations."),
 "C08": ("history + executable model (accumulative semantics)", "DESIGN.md 5-C08",
         "Persistence semantics checked after every call of generated histories on edge_removal=False graphs, including all C02 queries, stream and ids."),
 "C09": ("offline checker over written bytes + model equality after round trip", "DESIGN.md 5-C09",
         "Rows written by write_snapshots are decoded and compared as a multiset with the model; the graph read back is audited against the model; grid of classes x id types x delimiters x encodings x targets."),
 "C10": ("offline checker over written bytes + model of the event log", "DESIGN.md 5-C10",
         "Rows written by write_interactions must equal the stream; the reader is fed written files and directly generated well-formed logs and its result compared with the log's model."),
 "C11": ("offline checker over the emitted dict/JSON + model equality after round trip", "DESIGN.md 5-C11",
         "node_link_data is passed through a real JSON encoder, its nodes/links compared with the model, and the rebuilt graph audited against the model."),
 "C12": ("offline validator over every returned hop", "DESIGN.md 5-C12",
         "Each hop of each returned path is validated against the model's presence relation and the statement's conditions."),
 "C13": ("differential check against an independent brute-force enumerator", "DESIGN.md 5-C13",
         "The returned path set is compared with a brute-force DFS written from the statement; exhaustive over a small universe of temporal graphs and arguments."),
 "C14": ("recomputation oracle", "DESIGN.md 5-C14",
         "annotate_paths output is compared with a direct recomputation of each criterion as sets of paths, on real and synthetic path lists."),
 "C15": ("offline validator over DAG edges/sources/targets", "DESIGN.md 5-C15",
         "Acyclicity, edge soundness against the model, window bounds, exact source set and exception types for invalid windows."),
 "C16": ("model algebra + aliasing probes", "DESIGN.md 5-C16",
         "Converted graphs are audited with the C01-C05 battery against union/intersection/both-orientation models; mutation probes on nested attribute values check isolation in both directions."),
 "C17": ("rational recomputation from the model", "DESIGN.md 5-C17",
         "Every statistic is recomputed with fractions.Fraction from the presence relation and compared (1e-12); inter-event histograms recomputed from the actual stream."),
 "C18": ("grammar-based input generation, metamorphic + model oracle", "DESIGN.md 5-C18",
         "Noisy files generated from a row grammar must parse to the same observables as their clean rows and to the model's presence; compaction checked as a strictly increasing bijection."),
 "C19": ("program enumeration over the inherited networkx API with before/after audits", "DESIGN.md 5-C19",
         "Every public callable of the installed networkx Graph/DiGraph is called with synthesised arguments in reached states; blocked ones must raise NetworkXNotImplemented and change nothing, the others must leave timelines/stream/ids consistent."),
 "C20": ("structural + metamorphic oracles and sliding differential", "DESIGN.md 5-C20",
         "Range, node set, None-iff-empty, invariance under relabelling of label values and node ids, single-label closed form, and sliding == pointwise calls."),
}
NOTE = ("Trusted base: the reference model in dynmon/model.py (~100 lines), networkx as semantics of static graphs, "
        "CPython. Runtime monitoring: the claim is 'held on the executions explored' (counts in the evidence file); "
        "paths the workloads never drive are not covered.")

props = ["C%02d" % i for i in range(1, 21)]
checks, na = [], []
for p in props:
    try:
        mod = importlib.import_module("dynmon.props." + p.lower())
    except ImportError:
        na.append(dict(property_id=p, reason="check not built yet (work in progress; see DESIGN.md 5)"))
        continue
    tech, ref, text = TEXT[p]
    checks.append(dict(
        property_id=p,
        quick_cmd="/venv/bin/python -m dynmon.check %s --tier quick" % p,
        thorough_cmd="/venv/bin/python -m dynmon.check %s --tier thorough" % p,
        evidence_file="/verif/evidence/%s.json" % p,
        replay_cmd_template="/venv/bin/python -m dynmon.replay {path}",
        engine="dynmon",
        level_claimed=dict(category=mod.LEVEL, text=text, design_ref=ref),
        level_note=NOTE,
        technique="runtime monitoring: " + tech))

man = dict(
    version=1,
    setup_cmd="/venv/bin/python -m compileall -q dynmon && /venv/bin/python -m dynmon.selfcheck",
    hooks=dict(
        guard="DYNMON",
        enable="the runner sets DYNMON=1 for its worker processes; all monitors attach from the harness at the public API (wrappers, audits) - there are no source hooks in /repo",
        baseline_off_cmd="cd /repo && /venv/bin/python -m pytest -ra -q -p no:cacheprovider --timeout=900 --continue-on-collection-errors",
        source_commits=[],
        add_only=True),
    engines=[dict(name="dynmon", path="/verif/dynmon", serves_properties=[c["property_id"] for c in checks],
                  kind_free_text="runtime monitors (reference-model lock-step, audits, offline trace checkers, fault/program enumeration) in pure Python run against /repo's working tree")],
    checks=checks,
    notes="Known findings (genuine defects pinned by baseline tests) are listed in /verif/known_findings.txt; fixed ones are recorded there as 'fixed:' lines.",
    not_applicable=na)
with open("MANIFEST.json", "w") as f:
    json.dump(man, f, indent=1)
print("checks:", [c["property_id"] for c in checks], "not yet:", [x["property_id"] for x in na])
