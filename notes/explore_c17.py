import random, collections, itertools
from fractions import Fraction as F
import dynetx as dn
def build(seed, nn=5, T=6):
    rnd=random.Random(seed); G=dn.DynGraph(); P=collections.defaultdict(set)
    nodes=list(range(nn))
    if rnd.random()<.3: G.add_node(42)
    for _ in range(rnd.randint(1,7)):
        a,b=rnd.sample(nodes,2); k=(min(a,b),max(a,b)); t=rnd.randint(0,T)
        e=None if rnd.random()<.3 else t+rnd.randint(1,3); f=t if e is None else e-1
        if P[k] and t<=max(P[k])+1: continue
        G.add_interaction(a,b,t,e); P[k]|=set(range(t,f+1))
    return G,{k:v for k,v in P.items() if v}
c=collections.Counter(); ex={}
def chk(n,got,exp,ctx):
    ok = abs(float(got)-float(exp))<1e-12 if not isinstance(got,(set,dict)) else got==exp
    c[(n,ok)]+=1
    if not ok: ex.setdefault(n,(got,exp,ctx))
for seed in range(3000):
    G,P=build(seed)
    V=list(G.nodes()); Tset=sorted(set().union(*P.values()))
    Tn={n:{t for k,S in P.items() if n in k for t in S} for n in V}
    ctx=(P,V)
    try:
        chk('coverage',G.coverage(), F(sum(len(Tn[n]) for n in V), len(Tset)*len(V)),ctx)
        chk('avg_nodes',G.avg_number_of_nodes(), F(sum(len(Tn[n]) for n in V), len(Tset)),ctx)
        for n in V:
            chk('node_contribution',G.node_contribution(n),F(len(Tn[n]),len(Tset)),ctx)
            chk('node_presence',G.node_presence(n),Tn[n],ctx)
            den=sum(len(Tn[v]&Tn[n]) for v in V)
            num=sum(len(S) for k,S in P.items() if n in k)
            chk('node_density',G.node_density(n), F(num,den) if den else 0,ctx)
        for k,S in P.items():
            chk('edge_contribution',G.edge_contribution(*k),F(len(S),len(Tset)),ctx)
        num=den=unum=uden=0
        for u,v in itertools.combinations(V,2):
            k=(min(u,v),max(u,v)); S=P.get(k,set())
            i=Tn[u]&Tn[v]; un=Tn[u]|Tn[v]
            num+=len(S); den+=len(i); unum+=len(i); uden+=len(un)
            if un: chk('npu',G.node_pair_uniformity(u,v),F(len(i),len(un)),ctx)
            chk('pair_density',G.pair_density(u,v),F(len(S),len(i)) if i else 0,ctx)
        if den: chk('density',G.density(),F(num,den),ctx)
        if uden: chk('uniformity',G.uniformity(),F(unum,uden),ctx)
        for t in Tset+[Tset[-1]+3]:
            nt=[n for n in V if t in Tn[n]]; m=sum(1 for S in P.values() if t in S)
            exp=F(2*m,len(nt)*(len(nt)-1)) if len(nt)>1 else 0
            chk('snapshot_density',G.snapshot_density(t),exp,ctx)
    except Exception as x:
        c[('EXC',type(x).__name__)]+=1; ex.setdefault(('EXC',type(x).__name__),(str(x),ctx))
for k,v in sorted(c.items(),key=str): print(k,v)
for k,v in ex.items(): print(k,str(v)[:300])
