import random, collections, itertools
import networkx as nx, dynetx as dn
def build(seed, directed, loops, nn=4, T=5):
    rnd=random.Random(seed); G=dn.DynDiGraph() if directed else dn.DynGraph(); P=collections.defaultdict(set)
    nodes=list(range(nn))
    if rnd.random()<0.5: G.add_node(99, color='red')
    for _ in range(rnd.randint(0,7)):
        a=rnd.choice(nodes); b=rnd.choice(nodes)
        if a==b and not loops: continue
        if directed and a>b and rnd.random()<0.0: continue
        k=(a,b) if directed else (min(a,b),max(a,b)); t=rnd.randint(0,T)
        e=None if rnd.random()<.4 else t+rnd.randint(1,3); f=t if e is None else e-1
        if P[k] and t<=max(P[k])+0: continue   # only gap/adjacent: avoid known add defects (adjacent ok)
        if P[k] and t==max(P[k])+1 and e is None: continue
        G.add_interaction(a,b,t,e); P[k]|=set(range(t,f+1))
    return G,{k:v for k,v in P.items() if v}
def static(G,P,directed,t):
    S=nx.DiGraph() if directed else nx.Graph()
    S.add_nodes_from(G.nodes())
    for k,v in P.items():
        if t is None or t in v: S.add_edge(*k)
    return S
def norm(edges,directed): return sorted((a,b) if directed else tuple(sorted((a,b))) for a,b,*_ in edges)
c=collections.Counter(); ex={}
def chk(name,got,exp,ctx):
    if got!=exp:
        c[name]+=1; ex.setdefault(name,(got,exp,ctx))
    else: c['ok']+=1
for directed in (False,True):
  for loops in (False,True):
    for seed in range(1500):
        G,P=build(seed,directed,loops)
        for t in [None]+list(range(-1,9)):
            S=static(G,P,directed,t); ctx=(directed,loops,dict(P),t,list(G.nodes()))
            tag=f"{'D' if directed else 'U'}{'L' if loops else ''}:"
            try:
                chk(tag+'interactions',norm(G.interactions(t=t),directed),norm(S.edges(),directed),ctx)
                nz=sorted(n for n in S if S.degree(n)>0) if t is not None else sorted(S.nodes())
                chk(tag+'nodes',sorted(G.nodes(t=t)),nz,ctx)
                chk(tag+'degree',dict(G.degree(t=t)),dict(S.degree()),ctx)
                chk(tag+'size',G.size(t=t),S.number_of_edges(),ctx)
                chk(tag+'nnodes',G.number_of_nodes(t),len(nz),ctx)
                chk(tag+'noi',G.number_of_interactions(t=t),S.number_of_edges(),ctx)
                chk(tag+'density',dn.density(G,t), nx.density(S.subgraph(nz)) if len(nz)>1 else 0,ctx)
                if len(S): chk(tag+'hist',dn.degree_histogram(G,t),nx.degree_histogram(S),ctx)
                for n in list(S.nodes())+[77]:
                    if n in S:
                        chk(tag+'neighbors',sorted(G.neighbors(n,t)),sorted(S.neighbors(n)),ctx)
                        chk(tag+'all_neighbors',sorted(dn.all_neighbors(G,n,t)),sorted(nx.all_neighbors(S,n)),ctx)
                        chk(tag+'non_neighbors',sorted(dn.non_neighbors(G,n,t)),sorted(nx.non_neighbors(S,n)),ctx)
                        if directed:
                            chk(tag+'pred',sorted(G.predecessors(n,t)),sorted(S.predecessors(n)),ctx)
                            chk(tag+'indeg',G.in_degree(n,t),S.in_degree(n),ctx)
                            chk(tag+'outdeg',G.out_degree(n,t),S.out_degree(n),ctx)
                    chk(tag+'has_node',G.has_node(n,t), (n in nz),ctx)
                if directed:
                    chk(tag+'in_int',norm(G.in_interactions(t=t),True),norm(S.edges(),True),ctx)
                    chk(tag+'out_int',norm(G.out_interactions(t=t),True),norm(S.edges(),True),ctx)
                    nb=[0,2,77]
                    chk(tag+'in_int_nb',norm(G.in_interactions(nb,t=t),True),norm(S.in_edges([x for x in nb if x in S]),True),ctx)
                    chk(tag+'out_int_nb',norm(G.out_interactions(nb,t=t),True),norm(S.out_edges([x for x in nb if x in S]),True),ctx)
                nb=[0,2,77]
                chk(tag+'int_nb',norm(G.interactions(nb,t=t),directed),norm(S.edges([x for x in nb if x in S]),directed),ctx)
                chk(tag+'deg_nb',dict(G.degree(nb,t=t)),dict(S.degree([x for x in nb if x in S])),ctx)
                ne=sorted(tuple(sorted(x)) for x in dn.non_interactions(G,t)) if not directed else sorted(dn.non_interactions(G,t))
                ne_exp=sorted(tuple(sorted(x)) for x in nx.non_edges(S)) if not directed else sorted(nx.non_edges(S))
                chk(tag+'non_int'+('' if t is None else '@t'),ne,ne_exp,ctx)
                for a,b in itertools.product([0,1,2,77],[0,1,3]):
                    try: r=G.number_of_interactions(a,b,t)
                    except Exception as x: r='EXC:'+type(x).__name__
                    chk(tag+'noi_pair'+('' if t is None else '@t'),r,S.number_of_edges(a,b),ctx)
            except Exception as x:
                c[tag+'EXC:'+type(x).__name__]+=1; ex.setdefault(tag+'EXC:'+type(x).__name__,(str(x),ctx))
for k,v in sorted(c.items()): print(k,v)
print()
for k,v in sorted(ex.items()): print(k,str(v)[:300])
