import random, collections, io, json, os, tempfile
import dynetx as dn
from dynetx.readwrite import json_graph
def build(seed, directed, nn=4, T=6, strnodes=False):
    rnd=random.Random(seed); G=dn.DynDiGraph() if directed else dn.DynGraph(); P=collections.defaultdict(set)
    nodes=list(range(nn))
    if strnodes: nodes=['n%d'%i for i in nodes]
    for _ in range(rnd.randint(1,7)):
        a=rnd.choice(nodes); b=rnd.choice(nodes)
        if directed and not (a<=b): continue     # forward-only to avoid KF-a
        k=(a,b) if directed else (min(a,b),max(a,b)); t=rnd.randint(0,T)
        e=t+rnd.randint(1,3); f=e-1
        if P[k] and t<=max(P[k])+1: continue   # gaps only
        G.add_interaction(a,b,t,e); P[k]|=set(range(t,f+1))
    return G,{k:v for k,v in P.items() if v}
def pres(G,P,directed,T=12):
    out={}
    nodes=list(G.nodes())
    for a in nodes:
        for b in nodes:
            s={t for t in range(-1,T) if G.has_interaction(a,b,t)}
            if s: out[(a,b)]=s
    return out
c=collections.Counter(); ex={}
d=tempfile.mkdtemp()
for directed in (False,True):
  for strn in (False,True):
    nt = str if strn else int
    for seed in range(400):
        G,P=build(seed,directed,strnodes=strn)
        base=pres(G,P,directed)
        tag=('D' if directed else 'U')+('s' if strn else 'i')
        for ext in ['.txt','.gz','.bz2']:
            for delim in [' ',',','\t']:
                p=os.path.join(d,'f'+ext)
                try:
                    dn.write_snapshots(G,p,delimiter=delim)
                    H=dn.read_snapshots(p,directed=directed,nodetype=nt,timestamptype=int,delimiter=delim if delim!=' ' else None)
                    ok=pres(H,P,directed)==base
                    c[(tag,'snap',ok)]+=1
                    if not ok: ex.setdefault((tag,'snap'),(P,pres(H,P,directed)))
                except Exception as x:
                    c[(tag,'snapEXC',type(x).__name__)]+=1; ex.setdefault((tag,'snapEXC'),(P,str(x)))
                try:
                    dn.write_interactions(G,p,delimiter=delim)
                    H=dn.read_interactions(p,directed=directed,nodetype=nt,timestamptype=int,delimiter=delim if delim!=' ' else None)
                    ok=pres(H,P,directed)==base
                    ok2=sorted(map(str,G.stream_interactions()))==sorted(map(str,H.stream_interactions()))
                    c[(tag,'int',ok,ok2)]+=1
                    if not (ok and ok2): ex.setdefault((tag,'int',ok,ok2),(P,pres(H,P,directed),list(G.stream_interactions()),list(H.stream_interactions())))
                except Exception as x:
                    c[(tag,'intEXC',type(x).__name__)]+=1; ex.setdefault((tag,'intEXC'),(P,str(x)))
        try:
            data=json.loads(json.dumps(json_graph.node_link_data(G)))
            H=json_graph.node_link_graph(data)
            ok=pres(H,P,directed)==base and type(H)==type(G) and sorted(H.nodes())==sorted(G.nodes())
            c[(tag,'json',ok)]+=1
            if not ok: ex.setdefault((tag,'json'),(P,pres(H,P,directed)))
        except Exception as x:
            c[(tag,'jsonEXC',type(x).__name__)]+=1; ex.setdefault((tag,'jsonEXC'),(P,str(x)))
for k,v in sorted(c.items(),key=str): print(k,v)
for k,v in ex.items(): print(k,str(v)[:400])
import shutil; shutil.rmtree(d)
