import itertools, random, sys, collections
import networkx as nx
import dynetx as dn

def runs(S):
    S=sorted(S); out=[]
    for t in S:
        if out and out[-1][1]==t-1: out[-1][1]=t
        else: out.append([t,t])
    return out

class Ref:
    def __init__(self, directed):
        self.d=directed; self.P=collections.OrderedDict()
    def key(self,u,v):
        if self.d: return (u,v)
        return tuple(sorted((u,v)))
    def add(self,u,v,t,e):
        k=self.key(u,v)
        span=set([t]) if e is None else set(range(t,e))
        cur=self.P.get(k)
        if cur:
            last=runs(cur)[-1]
            if t<last[0]: return 'ValueError'
        self.P.setdefault(k,set()).update(span)
        return None
def mk(directed): return dn.DynDiGraph() if directed else dn.DynGraph()

def explore(directed, n_hist, seed, maxlen=4, T=6, nodes=(0,1)):
    rnd=random.Random(seed)
    bad=collections.Counter(); ex={}
    for h in range(n_hist):
        G=mk(directed); R=Ref(directed); hist=[]
        for i in range(rnd.randint(1,maxlen)):
            u=rnd.choice(nodes); v=rnd.choice(nodes)
            t=rnd.randint(0,T)
            e=None if rnd.random()<0.4 else t+rnd.randint(1,3)
            hist.append((u,v,t,e))
            exp=R.add(u,v,t,e)
            try:
                G.add_interaction(u,v,t,e); got=None
            except ValueError: got='ValueError'
            except Exception as ex_: got=type(ex_).__name__
            if got!=exp:
                key=('exc',exp,got); bad[key]+=1; ex.setdefault(key,list(hist)); break
        else:
            for k,S in R.P.items():
                for t in range(-1,T+5):
                    try: g=G.has_interaction(k[0],k[1],t)
                    except Exception as ex_: g=type(ex_).__name__
                    if g!=(t in S):
                        key=('presence',); bad[key]+=1; ex.setdefault(key,(list(hist),k,t,g)); break
    return bad,ex
if __name__=='__main__':
    for d in (False,True):
        b,e=explore(d,20000,1)
        print(d,b)
        for k,v in e.items(): print('  ',k,v)
