# stream/snapshot divergences for histories WITHOUT containment (avoid C01 defect), multi-pair
import random, collections
import dynetx as dn
from ref import runs
def spec_stream(P):
    ev=set()
    for k,S in P.items():
        for a,b in runs(S):
            ev.add((k,'+',a)); ev.add((k,'-',b+1))
    return ev
res=collections.Counter(); ex={}
pairs=[(0,1),(1,2),(0,2)]
for directed in (False,True):
  for seed in range(40000):
    rnd=random.Random(seed)
    G=dn.DynDiGraph() if directed else dn.DynGraph()
    P={}; hist=[]; tags=[]
    bad=False
    for i in range(rnd.randint(1,5)):
        k=rnd.choice(pairs)
        t=rnd.randint(0,6); withe = rnd.random()<0.6
        e=t+rnd.randint(1,3) if withe else None
        f = e-1 if withe else t
        S=P.get(k,set())
        if S:
            a,b=runs(S)[-1]
            if t<a: continue   # skip rejected
            if f<=b: continue  # skip contained
            tag=('P' if a==b else 'I')+('p' if e is None else 'i')+(':adj' if t==b+1 else ':gap' if t>b+1 else ':ovl'+('@start' if t==a else ''))
        else: tag='first'+('p' if e is None else 'i')
        hist.append((k,t,e)); tags.append(tag)
        try: G.add_interaction(k[0],k[1],t,e)
        except Exception as x:
            res[('exc',type(x).__name__,tag)]+=1; ex.setdefault(('exc',type(x).__name__,tag),list(hist)); bad=True; break
        P.setdefault(k,set()).update(range(t,f+1))
    if bad: continue
    # stream check
    st=list(G.stream_interactions())
    key=lambda u,v: (u,v) if directed else tuple(sorted((u,v)))
    got=collections.Counter((key(u,v),op,t) for u,v,op,t in st)
    spec=spec_stream(P)
    extra=[x for x in got if x not in spec]
    missing=[x for x in spec if x not in got]
    dup=[x for x,c in got.items() if c>1]
    for x in extra:
        k,op,t=x; S=P[k]
        c=('extra',op,'inside-run' if (t in S and t-1 in S) else 'other', tuple(tags))
        res[c[:3]]+=1; ex.setdefault(c[:3],(list(hist),st))
    for x in missing:
        k,op,t=x; S=P[k]
        # missing '-' after a 1-instant run is allowed
        a,b=[r for r in runs(S) if (r[0]==t if op=='+' else r[1]+1==t)][0]
        if op=='-' and a==b: continue
        c=('missing',op,'runlen>1' if b>a else 'runlen1')
        res[c]+=1; ex.setdefault(c,(list(hist),st))
    for x in dup: res[('dup',)]+=1
    # snapshots
    inh=set().union(*P.values()) if P else set()
    if G.temporal_snapshots_ids()!=sorted(inh): res[('snapids',)]+=1; ex.setdefault(('snapids',),(hist,G.temporal_snapshots_ids()))
    ips=G.interactions_per_snapshots()
    for t in inh:
        n=sum(1 for S in P.values() if t in S)
        if ips.get(t)!=n:
            res[('ips',)]+=1; ex.setdefault(('ips',),(hist,t,ips.get(t),n)); break
    res[('total',)]+=1
for k,v in sorted(res.items()): print(k,v)
print()
for k,v in sorted(ex.items()): print(k,v)
