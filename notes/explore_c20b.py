import sys; sys.path.insert(0,'/tmp/explore/repo')
import os; os.environ['TQDM_DISABLE']='1'
import random, collections, math
import dynetx as dn, dynetx.algorithms as al
def hist(seed, nn=5, T=6):
    rnd=random.Random(seed); ops=[]; P=collections.defaultdict(set)
    labs={n:rnd.choice('xyz') for n in range(nn)}
    for _ in range(rnd.randint(2,9)):
        a,b=rnd.sample(range(nn),2); k=(min(a,b),max(a,b)); t=rnd.randint(0,T); e=t+rnd.randint(1,3)
        if P[k] and t<=max(P[k]): continue
        ops.append((a,b,t,e)); P[k]|=set(range(t,e))
    return ops,labs
def build(ops,labs,nmap=lambda n:n,lmap=lambda l:l):
    G=dn.DynGraph()
    for n,l in labs.items(): G.add_node(nmap(n),lab=lmap(l))
    for a,b,t,e in ops: G.add_interaction(nmap(a),nmap(b),t,e)
    return G
c=collections.Counter(); ex={}
def close(a,b): return abs(a-b)<=1e-9
for seed in range(800):
    ops,labs=hist(seed)
    G=build(ops,labs); ids=G.temporal_snapshots_ids()
    rnd=random.Random(seed*3+1)
    start=rnd.choice(ids); delta=rnd.randint(0,4); pt=rnd.choice(['shortest','fastest','foremost','fastest_shortest','shortest_fastest'])
    r=al.delta_conformity(G,start,delta,[1.0,2.5],['lab'],path_type=pt)
    perm=list(range(5)); rnd.shuffle(perm)
    nmap=lambda n: 'N%d'%perm[n]
    G2=build(ops,labs,nmap=nmap); r2=al.delta_conformity(G2,start,delta,[1.0,2.5],['lab'],path_type=pt)
    lm={'x':'q','y':'x','z':'w'}
    G3=build(ops,labs,lmap=lambda l: lm[l]); r3=al.delta_conformity(G3,start,delta,[1.0,2.5],['lab'],path_type=pt)
    if r is None:
        c['none-consistent' if r2 is None and r3 is None else 'NONE-MISMATCH']+=1; continue
    for a in r:
        for p in r[a]:
            for n,v in r[a][p].items():
                if not close(v,r2[a][p][nmap(n)]): c['NODE-RENAME-DIFF']+=1; ex.setdefault('node',(seed,ops,labs,start,delta,pt,n,v,r2[a][p][nmap(n)],perm))
                else: c['node-ok']+=1
                if not close(v,r3[a][p][n]): c['LABEL-RENAME-DIFF']+=1; ex.setdefault('label',(seed,ops,labs,start,delta,pt,n,v,r3[a][p][n]))
                else: c['label-ok']+=1
    # sliding
    if seed%4==0:
        sl=al.sliding_delta_conformity(G,delta,[1.0],['lab'],path_type=pt)
        exp=collections.defaultdict(list)
        for t in ids:
            if t+delta<ids[-1]:
                d=al.delta_conformity(G,t,delta,[1.0],['lab'],path_type=pt)
                if d is None: continue
                for n,v in d['1.00']['lab'].items(): exp[n].append((t+delta,v))
        got={n:list(v) for n,v in sl['1.00']['lab'].items()} if '1.00' in sl else {}
        okk = set(got)==set(exp) and all(len(got[n])==len(exp[n]) and all(x[0]==y[0] and close(x[1],y[1]) for x,y in zip(got[n],exp[n])) for n in exp)
        c['sliding-ok' if okk else 'SLIDING-DIFF']+=1
        if not okk: ex.setdefault('sliding',(seed,got,dict(exp)))
print(c)
for k,v in ex.items(): print(k,str(v)[:600])
