import sys; sys.path.insert(0,'/tmp/explore/repo')
import random, collections
import dynetx as dn
assert dn.__file__.startswith('/tmp/explore/repo')
from ref import runs
def snapshot(G):
    return (sorted(map(repr,G.nodes(data=True))), sorted(repr(x) for x in G.interactions()), G.temporal_snapshots_ids(), sorted(G.interactions_per_snapshots().items()), list(G.stream_interactions()))
res=collections.Counter(); ex={}
nodes=[0,1,2]
for directed in (False,True):
  for seed in range(60000):
    rnd=random.Random(seed)
    G=dn.DynDiGraph() if directed else dn.DynGraph()
    key=(lambda u,v:(u,v)) if directed else (lambda u,v: tuple(sorted((u,v))))
    P={}; unclosed={}; hist=[]
    ok=True
    for i in range(rnd.randint(1,7)):
        u=rnd.choice(nodes); v=rnd.choice(nodes); k=key(u,v)
        t=rnd.randint(0,7); withe=rnd.random()<0.55
        e=t+rnd.randint(1,3) if withe else None; f=e-1 if withe else t
        S=P.get(k,set())
        rej = bool(S) and t<runs(S)[-1][0]
        hist.append((u,v,t,e))
        before=snapshot(G)
        try: G.add_interaction(u,v,t,e); got=None
        except Exception as x: got=type(x).__name__
        if rej:
            if got!='ValueError': res['BAD-rej:'+str(got)]+=1; ex.setdefault('rej',list(hist)); ok=False; break
            if snapshot(G)!=before: res['BAD-C07']+=1; ex.setdefault('c07',(list(hist),before,snapshot(G))); ok=False; break
            res['rej-ok']+=1; continue
        if got is not None: res['BAD-exc:'+got]+=1; ex.setdefault('exc'+got,list(hist)); ok=False; break
        # provenance for KF-E
        if S:
            a,b=runs(S)[-1]
            U=unclosed.setdefault(k,set())
            if a==b and t==a+1 and e is None: U.add((a,a+1))
            elif t<=b+1 and (f>b or (e is not None and e==b+1)): U.discard((a,b))
        P.setdefault(k,set()).update(range(t,f+1))
    if not ok: continue
    # presence + canonical
    for k,S in P.items():
        pres={x for x in range(-2,14) if G.has_interaction(k[0],k[1],x)}
        if pres!=S: res['BAD-pres']+=1; ex.setdefault('pres',(hist,k,pres,S)); ok=False
    tl={}
    for a,b,d in (G.out_interactions() if directed else G.interactions()):
        tl[key(a,b)]=[list(x) for x in d['t']]
    for k,S in P.items():
        if tl.get(k)!=runs(S): res['BAD-canon']+=1; ex.setdefault('canon',(hist,k,tl.get(k),runs(S))); ok=False
    # stream
    st=list(G.stream_interactions())
    if [x[3] for x in st]!=sorted(x[3] for x in st): res['BAD-order']+=1
    got=collections.Counter((key(a,b),op,t) for a,b,op,t in st)
    if any(c>1 for c in got.values()): res['BAD-dup']+=1; ex.setdefault('dup',(hist,st))
    spec_plus={(k,'+',a) for k,S in P.items() for a,b in runs(S)}
    must_minus={(k,'-',b+1) for k,S in P.items() for a,b in runs(S) if b>a}
    may_minus={(k,'-',b+1) for k,S in P.items() for a,b in runs(S)}
    gp={x for x in got if x[1]=='+'}; gm={x for x in got if x[1]=='-'}
    if gp!=spec_plus: res['BAD-plus']+=1; ex.setdefault('plus',(hist,st))
    if not gm<=may_minus: res['BAD-minus-extra']+=1; ex.setdefault('mextra',(hist,st))
    miss=must_minus-gm
    kfe={(k,'-',r[1]+1) for k,U in unclosed.items() for r in U}
    if miss-kfe: res['BAD-minus-missing']+=1; ex.setdefault('mmiss',(hist,st,miss,kfe))
    elif miss: res['KF-E']+=1
    # ids, ips
    inh=sorted(set().union(*P.values())) if P else []
    if G.temporal_snapshots_ids()!=inh: res['BAD-ids']+=1; ex.setdefault('ids',(hist,G.temporal_snapshots_ids(),inh))
    ips=G.interactions_per_snapshots()
    exp={t:sum(1 for S in P.values() if t in S) for t in inh}
    if ips!=exp: res['BAD-ips']+=1; ex.setdefault('ips',(hist,ips,exp))
    res['hist-ok' if ok else 'hist-bad']+=1
for k,v in sorted(res.items()): print(k,v)
for k,v in ex.items(): print(k,str(v)[:500])
