import random, collections, os, tempfile
import dynetx as dn
from dynetx.readwrite.edgelist import parse_snapshots, parse_interactions, read_ids
from dynetx.utils import compact_timeslot
def obs(G):
    nodes=sorted(G.nodes(),key=str)
    pres={}
    for a in nodes:
        for b in nodes:
            s=tuple(t for t in range(-1,15) if G.has_interaction(a,b,t))
            if s: pres[(a,b)]=s
    return nodes,pres
c=collections.Counter(); ex={}
noise=['','   ','\n','# a comment','#','  # indented comment','1 2','7','\t']
for seed in range(3000):
    rnd=random.Random(seed)
    delim=rnd.choice([None,',',';','\t'])
    d=' ' if delim is None else delim
    rows=[]; clean=[]
    last={}
    for _ in range(rnd.randint(1,8)):
        a,b=rnd.randint(0,3),rnd.randint(0,3); k=(min(a,b),max(a,b))
        t=last.get(k,-1)+rnd.randint(2,3)
        if rnd.random()<.5:
            r=d.join(map(str,[a,b,t])); last[k]=t
        else:
            e=t+rnd.randint(1,3); r=d.join(map(str,[a,b,t,e])); last[k]=e
        if rnd.random()<.2: r+=d+'extra'
        clean.append(r+'\n')
        rr=r
        if rnd.random()<.3: rr=r+' # trailing'
        if rnd.random()<.2: rr='  '+rr+'  '
        rows.append(rr+'\n')
        while rnd.random()<.4: 
            n=rnd.choice(noise)
            if delim is not None: n=n.replace(' ',d) if n.strip() and not n.strip().startswith('#') else n
            rows.append(n+'\n')
    try:
        G1=parse_snapshots(rows,delimiter=delim,nodetype=int,timestamptype=int)
        G2=parse_snapshots(clean,delimiter=delim,nodetype=int,timestamptype=int)
        ok=obs(G1)==obs(G2) and list(G1.stream_interactions())==list(G2.stream_interactions())
        c[('snap',ok)]+=1
        if not ok: ex.setdefault('snap',(rows,clean))
    except Exception as x:
        c[('snapEXC',type(x).__name__)]+=1; ex.setdefault(('snapEXC',type(x).__name__),(str(x),rows))
# bad conversion
for bad in ['a 2 3\n','1 2 x\n','1 2 3 y\n']:
    try: parse_snapshots([bad],nodetype=int,timestamptype=int); print('no raise',bad)
    except Exception as x: print(type(x).__name__, repr(bad))
for bad in ['a 2 + 3\n','1 2 + x\n']:
    try: parse_interactions([bad],nodetype=int,timestamptype=int); print('no raise',bad)
    except Exception as x: print(type(x).__name__, repr(bad))
# keys=True
d=tempfile.mkdtemp(); p=os.path.join(d,'k.txt')
open(p,'w').write('1 2 10\n1 2 30\n3 4 20 40\n')
try:
    G=dn.read_snapshots(p,nodetype=int,timestamptype=int,keys=True); print('keys snap4', obs(G))
except Exception as x: print('keys snap4 EXC',type(x).__name__,x)
open(p,'w').write('1 2 10\n1 2 30\n3 4 20\n')
G=dn.read_snapshots(p,nodetype=int,timestamptype=int,keys=True); print('keys snap3', obs(G))
open(p,'w').write('1 2 + 10\n1 2 - 30\n3 4 + 20\n')
G=dn.read_interactions(p,nodetype=int,timestamptype=int,keys=True); print('keys int', obs(G), list(G.stream_interactions()))
open(p,'w').write('# c\n1 2 10\n\n1 2 30\n')
try: G=dn.read_snapshots(p,nodetype=int,timestamptype=int,keys=True); print('keys noisy', obs(G))
except Exception as x: print('keys noisy EXC',type(x).__name__,x)
open(p,'w').write('1,2,10\n1,2,30\n')
try: G=dn.read_snapshots(p,nodetype=int,timestamptype=int,keys=True,delimiter=','); print('keys delim', obs(G))
except Exception as x: print('keys delim EXC',type(x).__name__,x)
import shutil; shutil.rmtree(d)
print(compact_timeslot([5,-3,100,7]))
for k,v in sorted(c.items(),key=str): print(k,v)
for k,v in ex.items(): print(k,str(v)[:400])
