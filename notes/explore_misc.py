import sys
if len(sys.argv)>1: sys.path.insert(0,sys.argv[1])
import random, collections
import dynetx as dn
print(dn.__file__)
from ref import runs
res=collections.Counter(); ex={}
# ---- C08
for directed in (False,True):
  for seed in range(20000):
    rnd=random.Random(seed); G=(dn.DynDiGraph if directed else dn.DynGraph)(edge_removal=False)
    key=(lambda u,v:(u,v)) if directed else (lambda u,v: tuple(sorted((u,v))))
    first={}; acc=set(); hist=[]; bad=False
    for i in range(rnd.randint(1,7)):
        u,v=rnd.choice([0,1,2]),rnd.choice([0,1,2]); t=rnd.randint(0,8); e=None if rnd.random()<.5 else t+rnd.randint(1,3)
        hist.append((u,v,t,e))
        try: G.add_interaction(u,v,t,e)
        except ValueError: res['c08-rej']+=1; continue
        except Exception as x: res['C08-EXC:'+type(x).__name__]+=1; ex.setdefault('c08exc',hist); bad=True; break
        first.setdefault(key(u,v),t); acc.add(t)
    if bad: continue
    mx=max(acc) if acc else None
    for k,t0 in first.items():
        for t in range(-1,13):
            if G.has_interaction(k[0],k[1],t)!=(t0<=t<=mx): res['C08-PRES']+=1; ex.setdefault('c08pres',(hist,k,t)); break
    st=list(G.stream_interactions())
    exp=sorted((k,'+',t0) for k,t0 in first.items())
    got=sorted((key(a,b),op,t) for a,b,op,t in st)
    if got!=exp: res['C08-STREAM']+=1; ex.setdefault('c08stream',(hist,st))
    if G.temporal_snapshots_ids()!=sorted(acc): res['C08-IDS']+=1; ex.setdefault('c08ids',(hist,G.temporal_snapshots_ids(),sorted(acc)))
    res['c08-ok']+=1
# ---- C06 / C16 on removal graphs
def build(seed,directed):
    rnd=random.Random(seed); G=dn.DynDiGraph() if directed else dn.DynGraph()
    key=(lambda u,v:(u,v)) if directed else (lambda u,v: tuple(sorted((u,v))))
    P={}
    for i in range(rnd.randint(1,8)):
        u,v=rnd.choice([0,1,2,3]),rnd.choice([0,1,2,3]); t=rnd.randint(0,8); e=None if rnd.random()<.4 else t+rnd.randint(1,3)
        f=t if e is None else e-1; k=key(u,v); S=P.get(k,set())
        if S and t<runs(S)[-1][0]: continue
        G.add_interaction(u,v,t,e); P.setdefault(k,set()).update(range(t,f+1))
    return G,P,key
def pres(G,directed):
    out={}
    for a in G.nodes():
        for b in G.nodes():
            s={t for t in range(-1,14) if G.has_interaction(a,b,t)}
            if s: out[(a,b) if directed else tuple(sorted((a,b)))]=s
    return out
for directed in (False,True):
  for seed in range(4000):
    G,P,key=build(seed,directed)
    rnd=random.Random(seed+5); a=rnd.randint(-1,10); b=a+rnd.randint(0,4)
    try: H=G.time_slice(a,b)
    except Exception as x: res['C06-EXC:'+type(x).__name__]+=1; ex.setdefault('c06exc',(P,a,b)); continue
    exp={k:{t for t in S if a<=t<=b} for k,S in P.items()}; exp={k:v for k,v in exp.items() if v}
    got=pres(H,directed)
    tag='D' if directed else 'U'
    if got!=exp: res['C06-%s-DIFF'%tag]+=1; ex.setdefault('c06'+tag,(P,a,b,got,exp,list(G.nodes())))
    else: res['c06-%s-ok'%tag]+=1
    if directed:
        for rec in (False,True):
            try: U=G.to_undirected(reciprocal=rec)
            except Exception as x: res['C16-undir-EXC:%s:%s'%(rec,type(x).__name__)]+=1; ex.setdefault('c16exc%s'%rec,(P,str(x))); continue
            exp={}
            for (u,v),S in P.items():
                k=tuple(sorted((u,v)))
                if rec: 
                    T=S & P.get((v,u),set())
                else: T=S
                if T: exp.setdefault(k,set()).update(T)
            got=pres(U,False)
            if got!=exp: res['C16-undir-%s-DIFF'%rec]+=1; ex.setdefault('c16u%s'%rec,(P,got,exp,list(G.nodes())))
            else: res['c16-undir-%s-ok'%rec]+=1
    else:
        D=G.to_directed(); got=pres(D,True)
        exp={}
        for (u,v),S in P.items(): exp[(u,v)]=set(S); exp[(v,u)]=set(S)
        if got!=exp: res['C16-dir-DIFF']+=1; ex.setdefault('c16d',(P,got,exp,list(G.nodes())))
        else: res['c16-dir-ok']+=1
for k,v in sorted(res.items()): print(k,v)
for k,v in ex.items(): print(k,str(v)[:500])
