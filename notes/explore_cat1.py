# classify first divergence in single-pair histories by relative position
import random, collections
import dynetx as dn
from ref import runs
def relpos(L, s, f):
    a,b=L
    pt = 'P' if a==b else 'I'
    npt = 'p' if s==f else 'i'
    if s<a: r='before'
    elif s>b+1: r='gap'
    elif s==b+1: r='adjacent'
    elif f<=b: r='contained' + ('=dup' if (s,f)==(a,b) else '') + ('@end' if f==b and (s,f)!=(a,b) else '')
    else: r='overlap' + ('@start' if s==a else '')
    return pt+npt+':'+r
res=collections.defaultdict(collections.Counter); ex={}
for directed in (False,True):
  for seed in range(60000):
    rnd=random.Random(seed)
    G=dn.DynDiGraph() if directed else dn.DynGraph()
    S=set(); hist=[]
    for i in range(rnd.randint(2,4)):
        t=rnd.randint(0,6); withe = rnd.random()<0.6
        e=t+rnd.randint(1,3) if withe else None
        f = e-1 if withe else t
        if S:
            L=runs(S)[-1]; rp=relpos(L,t,f)+(':e' if withe else ':t')
        else: rp='first'
        hist.append((t,e))
        expect_rej = bool(S) and t<runs(S)[-1][0]
        try:
            G.add_interaction(0,1,t,e); got=None
        except Exception as x: got=type(x).__name__
        if expect_rej:
            out = 'ok-rejected' if got=='ValueError' else 'BAD-not-rejected:'+str(got)
            res[rp][out]+=1
            break
        if got is not None:
            res[rp]['BAD-exc:'+got]+=1; ex.setdefault((rp,got),list(hist)); break
        S|=set(range(t,f+1))
        pres={x for x in range(-2,14) if G.has_interaction(0,1,x)}
        tl=G._adj[0][1]['t'] if not directed else G._succ[0][1]['t']
        canon = [list(x) for x in tl]==runs(S)
        ok = pres==S
        o = ('presOK' if ok else 'PRES-BAD')+','+('canon' if canon else 'NONCANON')
        res[rp][o]+=1
        if not ok or not canon:
            ex.setdefault((rp,o),(list(hist),tl)); break
for rp in sorted(res): print(rp, dict(res[rp]))
print()
for k,v in sorted(ex.items()): print(k,v)
