import sys; sys.path.insert(0,'/tmp/explore/repo')
import random, collections, itertools
import dynetx as dn, dynetx.algorithms as al
assert dn.__file__.startswith('/tmp/explore/repo'), dn.__file__

def brute(P, directed, nodes, ids, u, v, start, end):
    """P: dict pair->set of instants. enumerate all hop sequences per C12."""
    win=[t for t in ids if start<=t<=end]
    def present(a,b,t):
        if directed: return t in P.get((a,b),())
        return t in P.get((min(a,b),max(a,b)),()) 
    def nbrs(a,t):
        return [b for b in nodes if present(a,b,t)]
    res=set()
    def ext(path):
        a_prev,b_prev,t_prev=path[-1]
        if v is None or b_prev==v: res.add(tuple(path))
        # continue from b_prev at later window instants, while b_prev has a neighbour at each intermediate snapshot id
        for t in win:
            if t<=t_prev: continue
            # all snapshot ids strictly between t_prev and t: b_prev must have >=1 interaction
            if any(not nbrs(b_prev,x) for x in win if t_prev<x<t): break
            for c in nbrs(b_prev,t):
                if c==a_prev and True:  # immediate reversal (b_prev->a_prev)
                    continue
                ext(path+[(b_prev,c,t)])
    for t in win:
        for b in nbrs(u,t):
            ext([(u,b,t)])
    return res

def run(seed, directed, nn=4, T=5, maxops=6):
    rnd=random.Random(seed)
    G=dn.DynDiGraph() if directed else dn.DynGraph()
    P=collections.defaultdict(set); nodes=list(range(nn))
    for _ in range(rnd.randint(1,maxops)):
        a,b=rnd.sample(nodes,2)
        k=(a,b) if directed else (min(a,b),max(a,b))
        t=rnd.randint(0,T); e=t+rnd.randint(1,3)
        S=P[k]
        if S and t<=max(S): continue
        G.add_interaction(a,b,t,e); P[k]|=set(range(t,e))
    ids=G.temporal_snapshots_ids()
    if not ids: return None
    u=rnd.choice(nodes); v=rnd.choice([None]+nodes)
    start=rnd.choice(ids); end=rnd.choice([x for x in ids if x>=start])
    if rnd.random()<0.3: start=None; 
    if rnd.random()<0.3: end=None
    s_=ids[0] if start is None else start; e_=ids[-1] if end is None else end
    try:
        got=al.time_respecting_paths(G,u,v,start,end)
    except Exception as x:
        return ('exc',type(x).__name__,str(x)[:60]), (dict(P),u,v,start,end)
    gotset=set()
    if isinstance(got,list): 
        assert got==[]
    else:
        for k,ps in got.items():
            for p in ps: gotset.add(tuple(p))
    if u not in G or not G.has_node(u, start):
        exp=set()
    else:
        exp=brute(P,directed,nodes,ids,u,v,s_,e_)
    if gotset==exp: return None
    extra=gotset-exp; missing=exp-gotset
    return ('diff','extra' if extra else '', 'missing' if missing else ''), (dict(P),ids,u,v,start,end,sorted(extra)[:3],sorted(missing)[:3])

for directed in (False,True):
    c=collections.Counter(); ex={}
    for seed in range(20000):
        r=run(seed,directed)
        if r: c[r[0]]+=1; ex.setdefault(r[0],r[1])
        else: c['ok']+=1
    print(directed,c)
    for k,v in ex.items(): print('  ',k,v)
